"""C03 - simplification passes preserve the function, the interface and their argument."""

from __future__ import annotations

from props import simp
from vlib import build, gen, refsem, wellformed
from vlib.runner import Sub, Violation


def check_preserve(case):
    nl, spec = case['nl'], case['spec']
    c = simp.build_for_pass(case)
    before = wellformed.snapshot(c)
    res = simp.apply_spec(spec, c, reuse=bool(case.get('reuse_instance')), hand=case.get('hand', 'list'))
    if res is c:
        raise Violation('same_object', 'the pass returned its argument instead of a new circuit')
    after = wellformed.snapshot(c)
    if after != before:
        diff = [k for k in before if before[k] != after[k]]
        raise Violation('argument_modified', f'argument circuit changed in {diff}')
    res_nl = refsem.from_circuit(res)
    simp.function_preserved(nl, res_nl, simp.removal_requested(spec))
    if res.size > c.size:
        raise Violation('size', f'result has {res.size} gates, argument {c.size}')
    pr = wellformed.problems(res)
    if pr:
        raise Violation('wellformed', '; '.join(pr[:3]))
    # the result shares no mutable state with the argument: mutate the result, argument must not move
    if res.outputs:
        res.set_outputs([])
    for lab in list(res.gates):
        if not res.get_gate_users(lab) and res.gates[lab].gate_type.name != 'INPUT':
            res.remove_gate(lab)
            break
    if wellformed.snapshot(c) != before:
        raise Violation('shared_state', 'mutating the result changed the argument')
    cls = gen.classify(nl) | simp.spec_classes(spec) | simp.netlist_twin_classes(nl)
    if case.get('reuse_instance'):
        cls.add('pass_object_reused')
    if spec[0] == 'list':
        cls.add('list_as:' + case.get('hand', 'list'))
    changed = sorted(map(repr, res_nl['gates'])) != sorted(map(repr, nl['gates'])) or res_nl['outputs'] != nl['outputs']
    return {'nt': changed, 'cls': cls, 'key': [nl['inputs'], nl['gates'], nl['outputs'], spec],
            'sample': {'bench': build.bench_text(nl), 'pipeline': spec, 'result': build.bench_text(res_nl)}}


SPEC = {
    'id': 'C03',
    'rule': ('Hypothesis netlists biased to NOT/IFF/L*/R* chains, literal duplicates (same and rotated operands), '
             'constants, dead logic, repeated / input outputs (0-7 inputs, <=40 gates) x pass or pipeline drawn from a '
             'grammar (atoms RRG(+/-input removal), MU, MDG, MEG; a|b; TransformerComposition; list via '
             'apply_transformers; cleanup light/heavy). Oracle: reference truth table output by output, inputs '
             'identical (order-preserving subset when removal requested), output count, new object, deep snapshot of '
             'the argument unchanged, size not larger, result well formed. Non-trivial: the result differs '
             'structurally from the argument.'
             " Added during the build: pass objects re-used across cases, list / tuple / iterator hand-over, unary chains, the empty label on a gate the passes work on, 'warm' cases (the same circuit object went through the passes before and had its outputs narrowed since) and a harness-defined pass that only copies and declares library passes before / after it (never in a left operand of |)."),
    'assumptions': ['reference truth tables from vlib/refsem.py'],
    'subs': [Sub('preserve', simp.cases, check_preserve, {'quick': 3000, 'thorough': 200000})],
    'required_classes': {'preserve': ['pass:RRG', 'pass:RRG+rm', 'pass:MU', 'pass:MDG', 'pass:MEG', 'top:pipe',
                                      'top:comp', 'top:list', 'top:cleanup', 'LR_gate', 'constant', 'dead_gate',
                                      'dup_output', 'output_is_input', 'nary>=3']},
}
