"""C14 - conversion to the bench basis preserves the function."""

from __future__ import annotations

import collections

from hypothesis import strategies as st

from vlib import build, gen, refsem, wellformed
from vlib.env import cirbo_core, UuidStream
from vlib.runner import Sub, Violation

ALLOWED = {'INPUT', 'NOT', 'AND', 'OR', 'NAND', 'NOR', 'XOR', 'NXOR', 'IFF'}
REWRITTEN = {'LT', 'LEQ', 'GT', 'GEQ', 'LIFF', 'RIFF', 'LNOT', 'RNOT', 'ALWAYS_TRUE', 'ALWAYS_FALSE'}
HELPER = {'LT', 'LEQ', 'GT', 'GEQ', 'ALWAYS_TRUE', 'ALWAYS_FALSE'}
HEAVY = list(REWRITTEN) * 2 + list(refsem.NARY) + ['NOT', 'IFF']


@st.composite
def cases(draw, tier):
    big = tier == 'thorough'
    types = draw(st.sampled_from([HEAVY, list(gen.ALL_TYPES)]))
    nl = draw(gen.netlists(min_inputs=0, max_inputs=6 if big else 5, max_gates=30 if big else 18, types=types,
                           max_arity=4, styles=('plain', 'digits', 'mixed'), max_outputs=4,
                           dup_rate=draw(st.sampled_from([0, 0, 3])), const_operands=(0, 0, 2, 1)))
    forced_route = None
    pool = [g[0] for g in nl['gates'] if g[0] != '']
    if len(pool) >= 2 and draw(st.integers(0, 3)) == 0:
        # a comparison reading a (pseudo-)negation, the negation stored AFTER its reader (renamed away and back, as a caller
        # tidying up labels would leave it)
        p_, q_, r_ = (pool[draw(st.integers(0, len(pool) - 1))] for _ in range(3))
        tn = draw(st.sampled_from(['RNOT', 'RNOT', 'LNOT', 'NOT', 'RIFF', 'LIFF']))
        tc = draw(st.sampled_from(['LT', 'LEQ', 'GT', 'GEQ']))
        ng, cg = 'cmp_n', 'cmp_c'
        while ng in pool or cg in pool:
            ng, cg = ng + '_', cg + '_'
        side = draw(st.booleans())
        gates = [list(g) for g in nl['gates']] + [[ng, tn, [p_] if tn == 'NOT' else [p_, q_]], [cg, tc, [ng, r_] if side else [r_, ng]]]
        nl = dict(nl, gates=gates, outputs=list(nl['outputs']) + [cg])
        forced_route = {'kind': 'rename', 'moves': [len(gates) - 2] + [draw(st.integers(0, len(gates) - 1)) for _ in range(draw(st.integers(0, 2)))]}
    labs = [g[0] for g in nl['gates']]
    blocks = []
    if labs:
        for b in range(draw(st.integers(0, 3))):
            members = sorted({draw(st.integers(0, len(labs) - 1)) for _ in range(draw(st.integers(1, 6)))})
            if blocks and draw(st.booleans()):
                # nested: a subset of the previous block
                prev = blocks[-1]['gates']
                members = prev[: max(1, len(prev) // 2)]
            blocks.append({'name': f'blk{b}', 'gates': members,
                           'outputs': members[-1:], 'explicit_inputs': draw(st.booleans()),
                           # an explicit input list may name anything, also members of the block itself
                           'inputs': [draw(st.integers(0, len(labs) - 1)) for _ in range(draw(st.integers(0, 3)))]
                           + ([members[0]] if draw(st.booleans()) else [])})
    return {'nl': nl, 'route': forced_route if forced_route and draw(st.integers(0, 3)) else draw(gen.routes(nl)), 'blocks': blocks,
            'uuid_seed': draw(st.integers(0, 2 ** 20)),
            'entry': draw(st.sampled_from(['into_bench', 'into_bench', 'into_bench', 'convert_gate']))}


def verify(c, ret, nl, blocks_before):
    """Post-conditions of one into_bench() call on circuit `c` that was the netlist `nl` before the call."""
    labs = [g[0] for g in nl['gates']]
    typ = {g[0]: g[1] for g in nl['gates']}
    if ret is not c:
        raise Violation('return_value', 'into_bench does not return the circuit')
    res = refsem.from_circuit(c)
    if res['inputs'] != nl['inputs'] or res['outputs'] != nl['outputs']:
        raise Violation('interface', f'inputs/outputs changed: {res["inputs"]} {res["outputs"]}')
    rtyp = {g_[0]: g_[1] for g_ in res['gates']}
    bad = sorted({t for t in rtyp.values() if t not in ALLOWED})
    if bad:
        raise Violation('gate_types', f'types left after conversion: {bad}')
    try:
        t1 = refsem.tables(res)
    except refsem.ArityError as e:
        raise Violation('result_malformed', str(e))
    t0 = refsem.tables(nl)
    for lab in labs:
        if lab not in t1:
            raise Violation('gate_lost', f'gate {lab} disappeared')
        if t0[lab] != t1[lab]:
            raise Violation('truth_table', f'gate {lab} ({typ[lab]} -> {rtyp[lab]}) changed its function')
    pr = wellformed.problems(c)
    if pr:
        raise Violation('wellformed', '; '.join(pr[:3]))
    # helper gates
    rops = {g_[0]: g_[2] for g_ in res['gates']}
    new_labels = [l for l in rtyp if l not in typ]
    n_rewritten = sum(1 for l in labs if typ[l] in REWRITTEN)
    for nlab in new_labels:
        # (how many helpers a rewrite needs, of which type, and whether rewrites share one is the library's business: the
        # statement places them - a helper goes where the rewritten gates reading it were)
        us = [u for u in c.get_gate_users(nlab) if u in typ]
        if not us:
            continue
        for name, members in blocks_before.items():
            inb = nlab in c.get_block(name).gates
            if all(u in members for u in us) and not inb:
                raise Violation('helper_block', f'helper {nlab} of gate(s) {us}: block {name} contained the gate(s) but not the helper')
            if not any(u in members for u in us) and inb:
                raise Violation('helper_block', f'helper {nlab} of gate(s) {us}: block {name} contains the helper but none of the gates')
    for name, members in blocks_before.items():
        now = list(c.get_block(name).gates)
        if sorted(x for x in now if x in typ) != sorted(members):
            raise Violation('block_members', f'block {name} lost members (or took in gates that existed before)')
    return n_rewritten


def check_bench(case):
    core = cirbo_core()
    nl = case['nl']
    c = build.build(nl, case['route'])
    labs = [g[0] for g in nl['gates']]
    typ = {g[0]: g[1] for g in nl['gates']}
    for b in case['blocks']:
        gl = [labs[i] for i in b['gates']]
        if b['explicit_inputs']:
            c.make_block(b['name'], gl, [labs[i] for i in b['outputs']], inputs=[labs[i] for i in b.get('inputs', [])])
        else:
            c.make_block(b['name'], gl, [labs[i] for i in b['outputs']])
    n = len(nl['inputs'])
    has_const = any(t in ('ALWAYS_TRUE', 'ALWAYS_FALSE') for t in typ.values())
    before = wellformed.snapshot(c)
    blocks_before = {name: list(b.gates) for name, b in c.blocks.items()}
    with UuidStream(case['uuid_seed']):
        # graphviz rendering in bench form must leave the original untouched
        g = c.into_graphviz_digraph(as_bench=True, draw_blocks=False) if n > 0 or not has_const else None
        if g is not None and not isinstance(g.source, str):
            raise Violation('graphviz', 'no DOT source produced')
        if wellformed.snapshot(c) != before:
            raise Violation('graphviz_modified_original', 'into_graphviz_digraph(as_bench=True) modified the circuit')
        if n == 0 and has_const:
            try:
                c.into_bench()
            except core.CirboError:
                # the circuit gets an input after all and is converted then: an ordinary conversion, whatever was tried before
                late = '__late_input__'
                c.add_inputs([late])
                c.into_bench()
                left = {g.gate_type.name for g in c.gates.values()} - ALLOWED
                if left:
                    raise Violation('non_bench_types_remain', f'after a declined and a repeated conversion: {sorted(left)}')
                pr = wellformed.problems(c)
                if pr:
                    raise Violation('wellformed', 'conversion repeated after a declined one (an input was added in between): ' + '; '.join(pr[:3]))
                return {'nt': False, 'cls': {'zero_inputs_constant_rejected'}}
            raise Violation('zero_input_constant', 'conversion of a constant without any input did not raise')
        ret = None
        if case.get('entry') == 'convert_gate' and n > 0:
            # the public per-gate function, called gate by gate with Gate values taken from an equal twin circuit
            try:
                from cirbo.core.circuit.converters import convert_gate
            except ImportError:
                convert_gate = None
            if convert_gate is not None:
                import copy

                twin = copy.copy(c)
                for g in list(twin.gates.values()):
                    convert_gate(g, c)
                ret = c
        if ret is None:
            ret = c.into_bench()
    n_rewritten = verify(c, ret, nl, blocks_before)
    cls = gen.classify(nl)
    cls.add('entry:' + (case.get('entry') or 'into_bench'))
    if case['blocks']:
        cls.add('blocks')
    if any(typ[l] in ('GT', 'LT', 'GEQ', 'LEQ', 'LIFF', 'RIFF', 'LNOT', 'RNOT') and len(set(ops)) == 1
           for l, _, ops in nl['gates']):
        cls.add('binary_identical_operands')
    if any(typ[o] in REWRITTEN for o in nl['outputs']):
        cls.add('rewritten_output')
    if any(typ[labs[i]] in HELPER for b in case['blocks'] for i in b['gates']):
        cls.add('rewritten_in_block')
    return {'nt': n_rewritten >= 2, 'cls': cls, 'key': [nl['inputs'], nl['gates'], nl['outputs'], case['blocks']],
            'sample': {'bench': build.bench_text(nl), 'blocks': case['blocks']}}


# ---------------------------------------------------------------------------
# conversion of circuits that have a history: converted once, changed, converted again


@st.composite
def reconvert_cases(draw, tier):
    big = tier == 'thorough'
    nl = draw(gen.netlists(min_inputs=2, max_inputs=5, max_gates=14 if big else 10, types=draw(st.sampled_from([HEAVY, list(gen.ALL_TYPES)])),
                           max_arity=3, styles=('plain', 'mixed'), max_outputs=3, const_operands=(0, 0, 2)))
    muts = []
    for _ in range(draw(st.integers(1, 4))):
        kind = draw(st.sampled_from(['replace_inputs', 'replace_inputs', 'add_gates', 'add_gates', 'add_circuit', 'rename', 'rename', 'wrap', 'nothing']))
        m = {'kind': kind}
        if kind == 'replace_inputs':
            m['true'] = draw(st.lists(st.integers(0, 8), max_size=2))
            m['false'] = draw(st.lists(st.integers(0, 8), max_size=2))
        elif kind == 'add_gates':
            m['gates'] = [[draw(st.sampled_from(sorted(REWRITTEN))), draw(st.integers(0, 40)), draw(st.integers(0, 40)),
                           draw(st.booleans())] for _ in range(draw(st.integers(1, 3)))]
            m['emplace'] = draw(st.booleans())
            # give a new gate the label (and kind) of a gate that was renamed away earlier
            m['reuse'] = draw(st.booleans())
        elif kind == 'add_circuit':
            m['other'] = draw(gen.netlists(min_inputs=1, max_inputs=2, max_gates=4, types=HEAVY, max_arity=2, styles=('plain',), max_outputs=2))
        elif kind in ('rename', 'wrap'):
            m['x'] = draw(st.integers(0, 40))
            m['y'] = draw(st.integers(0, 40))
        muts.append(m)
    return {'nl': nl, 'route': draw(gen.routes(nl)), 'muts': muts, 'uuid_seed': draw(st.integers(0, 2 ** 20)),
            'first': draw(st.sampled_from([True, True, True, False]))}


def check_reconvert(case):
    core = cirbo_core()
    nl = case['nl']
    c = build.build(nl, case['route'])
    cls = set()
    with UuidStream(case['uuid_seed']):
        if case['first']:
            ret = c.into_bench()
            verify(c, ret, nl, {})
            cls.add('converted_before')
        fresh = 0
        retired = []
        typ0 = {g[0]: g[1] for g in nl['gates']}
        for k, m in enumerate(case['muts']):
            cur = refsem.from_circuit(c)
            labs = [g[0] for g in cur['gates']]
            if m['kind'] == 'replace_inputs':
                ins = list(cur['inputs'])
                tr = [ins[i % len(ins)] for i in m['true']]
                fa = [ins[i % len(ins)] for i in m['false'] if ins[i % len(ins)] not in tr]
                tr, fa = list(dict.fromkeys(tr)), list(dict.fromkeys(fa))
                if len(tr) + len(fa) >= len(ins) or not (tr or fa):
                    continue
                c.replace_inputs(tr, fa)
                cls.add('replace_inputs')
            elif m['kind'] == 'add_gates':
                for t, a, b, out in m['gates']:
                    ops = () if t.startswith('ALWAYS') else (labs[a % len(labs)], labs[b % len(labs)])
                    lab = f'fresh{k}_{fresh}'
                    fresh += 1
                    if m.get('reuse') and retired:
                        lab = retired.pop()
                        if typ0.get(lab) in HELPER:
                            t = typ0[lab]
                            ops = () if t.startswith('ALWAYS') else ops or (labs[a % len(labs)], labs[b % len(labs)])
                        cls.add('label_reused')
                    if m['emplace']:
                        c.emplace_gate(lab, getattr(core.gate, t), ops)
                    else:
                        c.add_gate(core.gate.Gate(lab, getattr(core.gate, t), ops))
                    if out:
                        c.mark_as_output(lab)
                    labs.append(lab)
                cls.add('add_gates')
            elif m['kind'] == 'add_circuit':
                oc = build.build(m['other'], None)
                # (the host may already hold labels shaped like the ones add_circuit generates: pick a free block name)
                name = f'sub{k}'
                while any(f'{name}@{g}' in c.gates for g in oc.gates) or name in c.blocks:
                    name += '_'
                c.add_circuit(oc, name=name)
                cls.add('add_circuit')
            elif m['kind'] == 'rename':
                old = labs[m['x'] % len(labs)]
                # (every other time a block member that the conversion will have to give a helper, if there is one)
                in_blocks = [l for b in c.blocks.values() for l in b.gates
                             if l in c.gates and c.gates[l].gate_type.name in HELPER]
                if in_blocks and m['y'] % 2:
                    old = in_blocks[m['x'] % len(in_blocks)]
                c.rename_gate(old, f'renamed{k}')
                if old in typ0 and typ0[old] != 'INPUT':
                    retired.append(old)
                cls.add('rename')
            elif m['kind'] == 'wrap':
                # wrap a gate under its old name: g -> renamed, new g = <original type of g>(renamed, other)
                cand = [l for l in labs if typ0.get(l) in HELPER and l in typ0]
                if cand:
                    old = cand[m['x'] % len(cand)]
                    t = typ0[old]
                    c.rename_gate(old, f'wrapped{k}')
                    ops = () if t.startswith('ALWAYS') else (f'wrapped{k}', labs[m['y'] % len(labs)] if labs[m['y'] % len(labs)] != old else f'wrapped{k}')
                    c.add_gate(core.gate.Gate(old, getattr(core.gate, t), ops))
                    cls.add('label_reused')
            # a conversion in the middle of the history as well
            if k + 1 < len(case['muts']) and case['muts'][k + 1]['kind'] == 'nothing':
                mid = refsem.from_circuit(c)
                mid_blocks = {name: list(b.gates) for name, b in c.blocks.items()}
                if mid['inputs']:
                    verify(c, c.into_bench(), mid, mid_blocks)
        nl2 = refsem.from_circuit(c)
        if not nl2['inputs']:
            return {'nt': False, 'cls': cls | {'no_inputs_left'}}
        blocks_before = {name: list(b.gates) for name, b in c.blocks.items()}
        ret = c.into_bench()
    n_rewritten = verify(c, ret, nl2, blocks_before)
    if n_rewritten:
        cls.add('non_bench_gates_reintroduced' if case['first'] else 'non_bench_gates')
    return {'nt': case['first'] and n_rewritten >= 1, 'cls': cls,
            'key': [nl['inputs'], nl['gates'], nl['outputs'], case['muts']],
            'sample': {'bench_before_second_conversion': build.bench_text(nl2), 'history': [m['kind'] for m in case['muts']]}}


SPEC = {
    'id': 'C14',
    'rule': ('Hypothesis netlists (0-6 inputs, all types with comparison / L*/R* / constant gates weighted up, identical '
             'operands, rewritten gates as outputs and as members of generated possibly nested / overlapping blocks) -> '
             'into_bench() (or the public per-gate convert_gate called with equal Gate values of a twin circuit) and into_graphviz_digraph(as_bench=True). Oracle: inputs/outputs lists and per-gate reference '
             'tables unchanged, only {INPUT,NOT,AND,OR,NAND,NOR,XOR,NXOR,IFF} remain, wellformed() (users multiset etc.), '
             'every new label is a NOT used by exactly one rewritten gate and is in exactly the blocks containing that '
             'gate, zero-input circuits with a constant raise. Sub-check reconvert: circuits with a history - converted once, then '
             'changed by replace_inputs / add_gate / emplace_gate of non-bench types (also under the label of a gate renamed away '
             'earlier) / add_circuit / rename_gate, then converted '
             'again (same post-conditions against the netlist read back just before the call). Non-trivial: >=2 gates were '
             'rewritten (reconvert: a non-bench gate was re-introduced after an earlier conversion).'
             ' Added during the build: the public per-gate convert_gate, explicit block inputs, the empty label, and a conversion declined for lack of inputs that is repeated after an input was added.'),
    'assumptions': ['reference tables from vlib/refsem.py; uuid4 replaced by a seeded stream'],
    'subs': [Sub('bench', cases, check_bench, {'quick': 3000, 'thorough': 200000}),
             Sub('reconvert', reconvert_cases, check_reconvert, {'quick': 1200, 'thorough': 60000})],
    'required_classes': {'bench': ['blocks', 'binary_identical_operands', 'rewritten_output', 'rewritten_in_block',
                                   'constant', 'LR_gate', 'cmp_gate', 'zero_inputs_constant_rejected'],
                         'reconvert': ['converted_before', 'replace_inputs', 'add_gates', 'add_circuit', 'rename', 'label_reused',
                                       'non_bench_gates_reintroduced']},
}
