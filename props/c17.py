"""C17 - shipped circuit databases are correct and lookups return the requested function."""

from __future__ import annotations

import itertools
import random

from hypothesis import strategies as st

from vlib import refsem, wellformed
from vlib.env import cirbo_core
from vlib.runner import Sub, Violation

AIG_TYPES = {'INPUT', 'NOT', 'IFF', 'AND', 'OR', 'NAND', 'NOR', 'GT', 'LT', 'GEQ', 'LEQ'}
XAIG_TYPES = AIG_TYPES | {'XOR', 'NXOR'}
_DBS = {}


def db(which):
    if which not in _DBS:
        cirbo_core()
        from cirbo.circuits_db.data_utils import DEFAULT_AIG_DB_PATH, DEFAULT_XAIG_DB_PATH
        from cirbo.circuits_db.db import CircuitsDatabase

        d = CircuitsDatabase(DEFAULT_AIG_DB_PATH if which == 'aig' else DEFAULT_XAIG_DB_PATH)
        d.open()
        _DBS[which] = d
    return _DBS[which]


def keys_of(which):
    d = db(which)
    return list(d._dict.keys())  # the key set is data; there is no public iterator over labels


def check_entry(which, key):
    d = db(which)
    c = d.get_by_label(key)
    if c is None:
        raise Violation('entry_missing', f'{which}: key {key} listed but get_by_label returns None')
    rows = key.split('_')
    n = len(rows[0]).bit_length() - 1
    if any(len(r) != (1 << n) for r in rows) or (1 << n) != len(rows[0]):
        raise Violation('entry_key_shape', f'{which}: malformed key {key}')
    nl = refsem.from_circuit(c)
    if len(nl['inputs']) != n:
        raise Violation('entry_input_count', f'{which} {key}: {len(nl["inputs"])} inputs, key spells {n}')
    if len(nl['outputs']) != len(rows):
        raise Violation('entry_output_count', f'{which} {key}: {len(nl["outputs"])} outputs')
    allowed = AIG_TYPES if which == 'aig' else XAIG_TYPES
    bad = sorted({g[1] for g in nl['gates']} - allowed)
    if bad:
        raise Violation('entry_basis', f'{which} {key}: gate types {bad} outside the basis')
    try:
        t = refsem.tables(nl)
    except (refsem.ArityError, ValueError, KeyError) as e:
        raise Violation('entry_malformed', f'{which} {key}: {e}')
    for o, r in zip(nl['outputs'], rows):
        got = ''.join('1' if (t[o] >> j) & 1 else '0' for j in range(1 << n))
        if got != r:
            raise Violation('entry_truth_table', f'{which}: entry {key} computes {got} on output {o}')
    pr = wellformed.basic_problems(c)
    if pr:
        raise Violation('entry_wellformed', f'{which} {key}: ' + '; '.join(pr[:2]))


def entries_sweep(tier, shard, nshards, seed):
    done = nt = 0
    sample = None
    for which in ('aig', 'xaig'):
        keys = keys_of(which)
        if tier == 'quick':
            small = [k for k in keys if k.count('_') <= 1]
            big = [k for k in keys if k.count('_') > 1]
            rnd = random.Random(seed * 7 + (1 if which == 'aig' else 2))
            keys = small + rnd.sample(big, 12000)
        for idx, key in enumerate(keys):
            if idx % nshards != shard:
                continue
            try:
                check_entry(which, key)
            except Violation as v:
                v.case = {'db': which, 'key': key}
                raise
            except BaseException as e:  # noqa
                e.case = {'db': which, 'key': key}
                raise
            done += 1
            if '1' in key:
                nt += 1
            sample = {'db': which, 'key': key}
    return {'evaluations': done, 'distinct_nontrivial': nt, 'exhaustive': tier == 'thorough',
            'samples': [sample] if sample else []}


def replay_entry(case):
    check_entry(case['db'], case['key'])


# ---------------------------------------------------------------------------
# lookups


def normalise_model(rows):
    """Own model of the documented normalisation: negate rows whose first entry is 1, sort, de-duplicate."""
    norm = [[(not v) for v in r] if r[0] else list(r) for r in rows]
    uniq = sorted({tuple(r) for r in norm})
    return '_'.join(''.join('1' if v else '0' for v in r) for r in uniq)


def check_lookup(which, rows, row_type='list'):
    """rows: list of lists of bools (fully defined table); row_type: how the rows are handed over (the declared
    argument type is a sequence of sequences: lists, tuples, or a mixture)."""
    d = db(which)
    key = normalise_model(rows)
    stored = d.get_by_label(key) is not None
    if row_type == 'tuple':
        arg = [tuple(r) for r in rows]
    elif row_type == 'mixed':
        arg = [tuple(r) if i % 2 == 0 else list(r) for i, r in enumerate(rows)]
    elif row_type == 'tuple_of_tuples':
        arg = tuple(tuple(r) for r in rows)
    else:
        arg = [list(r) for r in rows]
    res = d.get_by_raw_truth_table(arg)
    desc = f'{which} lookup {["".join("1" if v else "0" for v in r) for r in rows]}'
    if res is None:
        if stored:
            raise Violation('lookup_none_but_stored', f'{desc}: None although normalised key {key} is stored')
        return False
    if not stored:
        raise Violation('lookup_phantom', f'{desc}: a circuit was returned although key {key} is not stored')
    nl = refsem.from_circuit(res)
    n = len(rows[0]).bit_length() - 1
    if len(nl['outputs']) != len(rows) or len(nl['inputs']) != n:
        raise Violation('lookup_shape', f'{desc}: {len(nl["inputs"])} inputs / {len(nl["outputs"])} outputs')
    try:
        t = refsem.tables(nl)
    except (refsem.ArityError, ValueError, KeyError) as e:
        raise Violation('lookup_malformed', f'{desc}: {e}')
    for k, (o, r) in enumerate(zip(nl['outputs'], rows)):
        got = [bool((t[o] >> j) & 1) for j in range(1 << n)]
        if got != list(r):
            raise Violation('lookup_truth_table', f'{desc}: output {k} computes {"".join("1" if v else "0" for v in got)}')
    pr = wellformed.basic_problems(res)
    if pr:
        raise Violation('lookup_wellformed', f'{desc}: ' + '; '.join(pr[:2]))
    return True


def _rows_from_ints(n, cols):
    return [[bool((c >> j) & 1) for j in range(1 << n)] for c in cols]


def lookup_space(tier, seed):
    """(n, cols) tuples: thorough = all tables with 2 inputs x 1-3 outputs and 3 inputs x 1-2 outputs."""
    space = []
    for m in (1, 2, 3):
        space += [(2, c) for c in itertools.product(range(16), repeat=m)]
    space += [(3, (c,)) for c in range(256)]
    two = [(3, c) for c in itertools.product(range(256), repeat=2)]
    if tier == 'quick':
        rnd = random.Random(seed + 11)
        space = rnd.sample(space, 1500) + rnd.sample(two, 4000)
    else:
        space += two
    return space


def lookups_sweep(tier, shard, nshards, seed):
    space = lookup_space(tier, seed)
    done = nt = 0
    sample = None
    for idx, (n, cols) in enumerate(space):
        if idx % nshards != shard:
            continue
        rows = _rows_from_ints(n, cols)
        for which in ('aig', 'xaig'):
            try:
                check_lookup(which, rows)
            except Violation as v:
                v.case = {'db': which, 'n': n, 'cols': list(cols)}
                raise
            except BaseException as e:  # noqa
                e.case = {'db': which, 'n': n, 'cols': list(cols)}
                raise
            done += 1
            if any(c & 1 for c in cols) or list(cols) != sorted(set(cols)):
                nt += 1
        sample = {'n': n, 'cols': list(cols)}
    return {'evaluations': done, 'distinct_nontrivial': nt, 'exhaustive': tier == 'thorough',
            'samples': [sample] if sample else []}


def replay_lookup(case):
    check_lookup(case['db'], _rows_from_ints(case['n'], case['cols']))


@st.composite
def lookup_cases(draw, tier):
    which = draw(st.sampled_from(['aig', 'xaig']))
    kind = draw(st.sampled_from(['3x3', '3x3', 'related', 'related', 'unstored_outputs', 'unstored_inputs', '2xk']))
    if kind == 'unstored_inputs':
        n = draw(st.sampled_from([1, 4]))
        m = draw(st.integers(1, 3))
    elif kind == '2xk':
        n, m = 2, draw(st.integers(1, 5))
    else:
        n = draw(st.sampled_from([2, 3, 3]))
        m = 3 if kind == '3x3' else draw(st.integers(2, 5))
    W = 1 << n
    full = (1 << W) - 1
    cols = []
    for i in range(m):
        if kind == 'related' and cols and draw(st.booleans()):
            base = cols[draw(st.integers(0, len(cols) - 1))]
            cols.append(base ^ full if draw(st.booleans()) else base)
        else:
            cols.append(draw(st.integers(0, full)))
    return {'db': which, 'n': n, 'cols': cols, 'kind': kind,
            'row_type': draw(st.sampled_from(['list', 'list', 'tuple', 'mixed', 'tuple_of_tuples']))}


def check_lookup_case(case):
    n, cols = case['n'], case['cols']
    found = check_lookup(case['db'], _rows_from_ints(n, cols), case.get('row_type', 'list'))
    full = (1 << (1 << n)) - 1
    cls = {'kind:' + case['kind'], 'found' if found else 'not_found', case['db'], 'rows_as:' + case.get('row_type', 'list')}
    if any(c & 1 for c in cols):
        cls.add('needs_negation')
    if len(set(cols)) < len(cols):
        cls.add('duplicate_outputs')
    if any((c ^ full) in cols for c in cols):
        cls.add('complementary_outputs')
    norm = [c ^ full if c & 1 else c for c in cols]
    if norm != sorted(norm):
        cls.add('needs_reordering')
    nt = found and bool(cls & {'needs_negation', 'duplicate_outputs', 'needs_reordering'})
    return {'nt': nt, 'cls': cls, 'key': [case['db'], n, cols]}


@st.composite
def dc_cases(draw, tier):
    which = draw(st.sampled_from(['aig', 'xaig']))
    n = draw(st.sampled_from([2, 3, 3]))
    m = draw(st.integers(1, 3))
    W = 1 << n
    cols = [draw(st.integers(0, (1 << W) - 1)) for _ in range(m)]
    ncells = draw(st.integers(1, 6 if tier == 'thorough' else 5))
    cells = sorted({(draw(st.integers(0, m - 1)), draw(st.integers(0, W - 1))) for _ in range(ncells)})
    if m >= 2 and draw(st.integers(0, 3)) == 0:
        # two outputs spelled alike, free cells included (rows that are equal as values but not the same object)
        cols[1] = cols[0]
        own = [(0, j) for i, j in cells if i in (0, 1)] or [(0, draw(st.integers(0, W - 1)))]
        cells = sorted({c for c in cells if c[0] > 1} | set(own[:2]) | {(1, j) for _, j in own[:2]})
    return {'db': which, 'n': n, 'cols': cols, 'cells': [list(c) for c in cells],
            # the size measure of the lookup: default, or an explicit exclusion list (list / tuple / frozenset of gate types)
            # (some lists make whole completions free of charge: sizes of 0 are sizes too)
            'excl': draw(st.sampled_from([None, None, ['INPUT'], ('INPUT', 'AND'), ('INPUT', 'AND'), ['NOT'], ['INPUT', 'NOT', 'IFF'],
                                          ['INPUT', 'NOT', 'XOR', 'NXOR'], ('INPUT', 'AND', 'OR')])),
            # lookups made on the same database object just before: the same cells cut into rows of another length, with an
            # all-False row in front, or the same pattern under another measure
            'prior': draw(st.sampled_from([None, None, 'reshape', 'reshape', 'zero_row', 'other_measure']))}


def check_dc(case):
    cirbo_core()
    from cirbo.core.logic import DontCare

    d = db(case['db'])
    n, cols = case['n'], case['cols']
    rows = _rows_from_ints(n, cols)
    cells = [tuple(c) for c in case['cells']]
    model = [list(r) for r in rows]
    for i, j in cells:
        model[i][j] = DontCare
    core = cirbo_core()
    excl = case.get('excl')
    prior = case.get('prior')
    if prior:
        flat = [v for r in model for v in r]
        alts = []
        if prior == 'reshape':
            for w in ((1 << n) // 2, (1 << n) * 2):
                if w >= 2 and len(flat) % w == 0:
                    alts.append([flat[k:k + w] for k in range(0, len(flat), w)])
        elif prior == 'zero_row':
            alts.append([[False] * (1 << n)] + [list(r) for r in model])
            alts.append([list(r) for r in model] + [[False] * (1 << n)])
        for alt in alts:
            try:
                d.get_by_raw_truth_table_model(alt)
            except core.CirboError:
                pass
        if prior == 'other_measure':
            d.get_by_raw_truth_table_model([list(r) for r in model], exclusion_list=[core.gate.INPUT, core.gate.NOT] if excl is None else None)
    if excl is None:
        res = d.get_by_raw_truth_table_model([list(r) for r in model])

        def size_of(circ):
            return circ.gates_number()
    else:
        names = list(excl)
        types = [getattr(core.gate, x) for x in names]
        arg = frozenset(types) if names == ['NOT'] else tuple(types) if isinstance(excl, tuple) or len(names) == 2 else list(types)
        res = d.get_by_raw_truth_table_model([list(r) for r in model], exclusion_list=arg)

        def size_of(circ):
            # own count: gates whose type is not excluded
            return sum(1 for g in refsem.from_circuit(circ)['gates'] if g[1] not in names)
    # own enumeration of the completions
    best = None
    any_found = False
    for fill in itertools.product((False, True), repeat=len(cells)):
        comp = [list(r) for r in rows]
        for (i, j), v in zip(cells, fill):
            comp[i][j] = v
        c = d.get_by_raw_truth_table(comp)
        if c is None:
            continue
        any_found = True
        size = size_of(c)
        best = size if best is None else min(best, size)
    desc = f'{case["db"]} model lookup n={n} cols={cols} dont-cares={cells}'
    if res is None:
        if any_found:
            raise Violation('dc_none_but_completion_stored', f'{desc}: None although a completion is stored')
        return {'nt': False, 'cls': {'dc_not_found'}}
    nl = refsem.from_circuit(res)
    if len(nl['outputs']) != len(rows) or len(nl['inputs']) != n:
        raise Violation('dc_shape', f'{desc}: shape {len(nl["inputs"])}x{len(nl["outputs"])}')
    t = refsem.tables(nl)
    for i, o in enumerate(nl['outputs']):
        for j in range(1 << n):
            if (i, j) in cells:
                continue
            if bool((t[o] >> j) & 1) != rows[i][j]:
                raise Violation('dc_defined_cell', f'{desc}: output {i} row {j} differs from the defined entry')
    if size_of(res) > best:
        raise Violation('dc_not_smallest', f'{desc}: returned circuit has size {size_of(res)} (measure: {"default" if excl is None else "all but " + str(list(excl))}), a completion has {best}')
    pr = wellformed.basic_problems(res)
    if pr:
        raise Violation('dc_wellformed', '; '.join(pr[:2]))
    return {'nt': True, 'cls': {f'dc_cells={len(cells)}', case['db'], 'measure:' + ('default' if excl is None else 'explicit')}
            | ({'prior:' + prior} if prior else set()),
            'key': [case['db'], n, cols, case['cells'], list(excl) if excl else None]}


def instances(tier):
    """A user's own additions to an opened database are that object's: whoever opens the shipped file afterwards (in the
    same process) gets the shipped entries - no foreign label, nothing for a table that is not shipped."""
    core = cirbo_core()
    from cirbo.circuits_db.data_utils import DEFAULT_AIG_DB_PATH, DEFAULT_XAIG_DB_PATH
    from cirbo.circuits_db.db import CircuitsDatabase

    done = 0
    for which, path in (('aig', DEFAULT_AIG_DB_PATH), ('xaig', DEFAULT_XAIG_DB_PATH)):
        first = CircuitsDatabase(path)
        first.open()
        par = core.Circuit.bare_circuit(4)
        par.emplace_gate('p', core.gate.XOR, ('0', '1'))
        par.emplace_gate('q', core.gate.XOR, ('2', '3'))
        par.emplace_gate('r', core.gate.XOR, ('p', 'q'))
        par.set_outputs(['r'])
        first.add_circuit(par, label='scratch_of_the_first_user')
        first.add_circuit(par)
        first.close()
        second = CircuitsDatabase(path)
        second.open()
        try:
            if second.get_by_label('scratch_of_the_first_user') is not None:
                raise Violation('instances:foreign_label', f'{which}: a label added to another database object is found in a newly opened one')
            tt = [[bool(bin(j).count('1') % 2) for j in range(16)]]
            if second.get_by_raw_truth_table(tt) is not None:
                raise Violation('instances:foreign_entry', f'{which}: the 4-input parity (not shipped) is found after another object stored it')
        finally:
            second.close()
        done += 2
    # a database of one's own: whatever it agrees to store is found again as the function that was asked for
    import io

    for which_basis in ('aig',):
        own = CircuitsDatabase()
        own.open()
        # nothing stored yet: every lookup finds nothing (and says so by returning None)
        for want in ([[False, True, True, False]], [[False, False, False, True], [False, True, True, False]], [[False, True]]):
            try:
                got = own.get_by_raw_truth_table(want)
            except core.CirboError as e:
                raise Violation('instances:empty_database_lookup', f'an opened database with no entries yet: looking up {[list(map(int, r)) for r in want]} '
                                                                   f'raised {type(e).__name__}: {e}')
            done += 1
            if got is not None:
                raise Violation('instances:empty_database_lookup', f'an opened database with no entries returned a circuit for {want}')
        base_list = ((('GT', 'AND'), 'uv'), (('AND', 'GT'), 'uv'), (('OR', 'LT'), 'uv'), (('LT', 'AND'), 'uv'),
                     (('AND', 'XOR'), 'uuv'), (('AND', 'XOR'), 'uvv'), (('AND', 'OR'), 'uvu'), (('GT', 'GT'), 'u'), (('LT', 'LT'), 'u'),
                     (('GT', 'OR'), 'uv'), (('LT', 'OR'), 'uv'), (('GT', 'XOR'), 'uv'), (('LT', 'XOR'), 'uv'))
        # (the circuit as built, with its input list put in another order afterwards, or with an input renamed afterwards -
        # which moves it in the gate storage, not in the input list)
        for types_, outs, past in [(t_, o_, p_) for p_ in ('built', 'inputs_reordered', 'input_renamed') for t_, o_ in base_list]:
            c2 = core.Circuit.bare_circuit(2)
            c2.emplace_gate('u', getattr(core.gate, types_[0]), ('0', '1'))
            c2.emplace_gate('v', getattr(core.gate, types_[1]), ('0', '1'))
            c2.set_outputs(list(outs))
            if past == 'inputs_reordered':
                c2.set_inputs(['1', '0'])
            elif past == 'input_renamed':
                c2.rename_gate('0', 'first_input')
            try:
                own.add_circuit(c2)
            except core.CirboError:
                continue  # (only tables in normal form are taken in)
            full = [[bool(x) for x in row] for row in c2.get_truth_table()]
            distinct = [list(r) for r in dict.fromkeys(tuple(r) for r in full)]
            for want in (full, distinct):
                got = own.get_by_raw_truth_table(want)
                done += 1
                if got is None or [[bool(x) for x in row] for row in got.get_truth_table()] != want:
                    raise Violation('instances:own_database_lookup', f'a circuit with gates {types_} and outputs {list(outs)} ({past}) was stored; looking up '
                                    f'{[list(map(int, r)) for r in want]} gives {None if got is None else [list(map(int, r)) for r in got.get_truth_table()]}')
        own.close()
    return {'evaluations': done, 'distinct_nontrivial': done, 'exhaustive': True,
            'samples': ['open, add_circuit, close, open again: foreign label, foreign table; own database: stored circuits are found as asked']}


SPEC = {
    'id': 'C17',
    'rule': ('Entries (sharded finite sweep): thorough = ALL 2 x 349,724 stored keys, quick = all 1- and 2-output keys + a seeded '
             'sample of 12,000 3-output keys per file: decodes, input count = log2(row length), reference truth table == the '
             'table spelled by the key, gate types within the database basis, structural well-formedness. Lookups (sharded): '
             'thorough = all tables with 2 inputs x 1-3 outputs and 3 inputs x 1-2 outputs on both databases, quick = seeded '
             'sample of 5,500; Hypothesis: 3x3 tables, equal / complementary / repeated outputs, unstored shapes (4-5 outputs, '
             '1 or 4 inputs): own normalisation model decides None vs found, returned circuit must compute the requested rows '
             'in order. Don\'t-care lookups with 1-6 free cells: agrees with every defined cell and is no larger (default measure, or an explicit '
             'exclusion_list with an own gate count) than the lookup of every completion (own enumeration). Non-trivial: lookup needing negation / re-ordering / '
             'duplication; entries with a non-zero table.'
             " Added during the build: prior lookups on the same database object (the same cells in rows of another length, an extra all-False row, another measure), equal rows with free cells, measures under which whole completions are free, and part 'instances' (private additions must not reach a database opened later; a database of one's own finds nothing while it is empty and returns what was stored, also for repeated outputs)."),
    'assumptions': ['the set of stored labels is read from the opened database dictionary (no public iterator exists)'],
    'subs': [Sub('lookup', lookup_cases, check_lookup_case, {'quick': 1600, 'thorough': 150000}),
             Sub('dont_care_lookup', dc_cases, check_dc, {'quick': 320, 'thorough': 30000})],
    'exhaustive': {'instances': instances},
    'sharded': {'entries': entries_sweep, 'lookups': lookups_sweep},
    'replay': {'entries': replay_entry, 'lookups': replay_lookup},
    'required_classes': {'lookup': ['needs_negation', 'duplicate_outputs', 'complementary_outputs', 'needs_reordering',
                                    'not_found', 'found', 'kind:unstored_inputs', 'kind:unstored_outputs']},
}
