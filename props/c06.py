"""C06 - exact synthesis is sound and complete for the requested size and basis."""

from __future__ import annotations

import itertools

from hypothesis import strategies as st

from vlib import refsem
from vlib.env import cirbo_core
from vlib.runner import Sub, Violation

OPS = {'always_false_': '0000', 'always_true_': '1111', 'lnot_': '1100', 'liff_': '0011', 'rnot_': '1010', 'riff_': '0101',
       'or_': '0111', 'nor_': '1000', 'and_': '0001', 'nand_': '1110', 'xor_': '0110', 'nxor_': '1001', 'gt_': '0010',
       'lt_': '0100', 'geq_': '1011', 'leq_': '1101'}
BASES = {
    'AIG': ['lnot_', 'and_', 'or_', 'nand_', 'nor_', 'gt_', 'lt_', 'geq_', 'leq_'],
    'XAIG': ['lnot_', 'and_', 'or_', 'nand_', 'nor_', 'gt_', 'lt_', 'geq_', 'leq_', 'xor_', 'nxor_'],
    'FULL': list(OPS),
}
TYPE_OF_CODE = {'0000': 'ALWAYS_FALSE', '0001': 'AND', '0010': 'GT', '0011': 'LIFF', '0100': 'LT', '0101': 'RIFF',
                '0110': 'XOR', '0111': 'OR', '1000': 'NOR', '1001': 'NXOR', '1010': 'RNOT', '1011': 'GEQ',
                '1100': 'LNOT', '1101': 'LEQ', '1110': 'NAND', '1111': 'ALWAYS_TRUE'}
CODE_OF_TYPE = {v: k for k, v in TYPE_OF_CODE.items()}
FIX_TYPES = ['AND', 'OR', 'XOR', 'NAND', 'NOR', 'NXOR', 'GT', 'LT', 'GEQ', 'LEQ', 'LNOT', 'RIFF']


@st.composite
def cases(draw, tier):
    big = tier == 'thorough'
    n = draw(st.sampled_from([1, 2, 2, 3, 3, 3] + ([4] if big else [])))
    # (now and then more outputs than one decimal digit counts: output positions travel through variable names)
    m = draw(st.sampled_from([1, 1, 2, 2, 3] * 4 + [10, 11, 12, 13]))
    W = 1 << n
    full = (1 << W) - 1
    kind = draw(st.sampled_from(['random', 'random', 'realisable', 'realisable', 'realisable']))
    G = draw(st.sampled_from([2, 3, 1, 2, 3, 4, 4, 0] + ([5] if big else [])))
    basis_kind = draw(st.sampled_from(['AIG', 'XAIG', 'FULL', 'custom', 'XAIG']))
    if basis_kind == 'custom':
        names = draw(st.lists(st.sampled_from(list(OPS)), min_size=1, max_size=6, unique=True))
        basis = {'kind': 'custom', 'ops': names}
    else:
        basis = {'kind': basis_kind, 'form': draw(st.sampled_from(['enum', 'str', 'lower']))}
    cols = [draw(st.integers(0, full)) for _ in range(m)]
    case = {'n': n, 'm': m, 'cols': cols, 'G': G, 'basis': basis, 'kind': kind,
            'normalized': draw(st.integers(0, 4)) == 0,
            # 'py_int': a callable answering 0 / 1 instead of False / True, as the library's own tutorial writes them
            'model_kind': draw(st.sampled_from(['tt', 'tt_str', 'py', 'py_int'])),
            'time_limit': draw(st.sampled_from([None, None, None, None, None, None, None, 60])),
            'again': draw(st.integers(0, 3)) == 0,
            # after a first answer one of its wires is forbidden and the same finder asked again (0 = no)
            'refine': draw(st.sampled_from([0, 0, 0, draw(st.integers(1, 60))])),
            'transport': draw(st.sampled_from(['none', 'none', 'deepcopy', 'pickle'])),
            'realise': [[draw(st.integers(0, 60)), draw(st.integers(0, 60)), draw(st.integers(0, 60))] for _ in range(6)],
            'out_pick': [draw(st.integers(0, 60)) for _ in range(m)]}
    dck = draw(st.sampled_from(['none', 'none', 'cells', 'cells', 'column', 'row', 'all']))
    dcs = []
    for i in range(m):
        if dck == 'none':
            dcs.append(0)
        elif dck == 'cells':
            dcs.append(draw(st.integers(0, full)) & draw(st.integers(0, full)))
        elif dck == 'column':
            dcs.append(full if i == 0 else draw(st.integers(0, full)) & draw(st.integers(0, full)))
        elif dck == 'row':
            dcs.append(1 << draw(st.integers(0, W - 1)) if i else 1)
        else:
            dcs.append(full)
    if dck == 'row':
        dcs = [dcs[-1]] * m
    case['dcs'] = dcs
    cons = []
    for _ in range(draw(st.sampled_from([0, 0, 0, 1, 1, 2, 3]))):
        ck = draw(st.sampled_from(['fix_first', 'fix_second', 'fix_both', 'fix_type', 'forbid', 'fix_first_type', 'invalid',
                                   'wit_first', 'wit_second', 'wit_both', 'wit_type', 'wit_both_type', 'wit_type_flip00',
                                   'wit_forbid_unused', 'wit_bad_order', 'wit_bad_order']))
        cons.append({'k': ck, 'a': draw(st.integers(0, 30)), 'b': draw(st.integers(0, 30)), 'c': draw(st.integers(0, 30)),
                     't': draw(st.sampled_from(FIX_TYPES))})
    case['constraints'] = cons
    case['limit'] = 3_000_000 if big else 400_000
    return case


def _basis_ops(basis):
    return list(BASES[basis['kind']]) if basis['kind'] != 'custom' else list(basis['ops'])


def _basis_arg(basis):
    from cirbo.synthesis import circuit_search as cs

    if basis['kind'] == 'custom':
        return [cs.Operation[name] for name in basis['ops']]
    if basis['form'] == 'enum':
        return cs.Basis[basis['kind']]
    return basis['kind'] if basis['form'] == 'str' else basis['kind'].lower()


def _apply_code(code, a, b, mask):
    return refsem._bin(code, a, b, mask)


def resolve_case(case):
    """Make the target realisable when asked to (a random circuit of <= G gates in the basis), resolve constraints."""
    n, m, G = case['n'], case['m'], case['G']
    pats, mask = refsem.full_patterns(n)
    ops = _basis_ops(case['basis'])
    cols = list(case['cols'])
    witness = []
    if case['kind'] == 'realisable' and G >= 1 and n >= 2 or (case['kind'] == 'realisable' and G >= 1 and n + G > 2 and n >= 1 and G >= 2):
        vals = list(pats)
        ok = True
        for gi, (x, y, o) in enumerate(case['realise'][:G]):
            k = len(vals)
            if k < 2:
                ok = False
                break
            a = x % k
            b = y % k
            if a == b:
                b = (a + 1) % k
            a, b = min(a, b), max(a, b)
            code = OPS[ops[o % len(ops)]]
            if case['normalized'] and code[0] == '1':
                norm = [OPS[q] for q in ops if OPS[q][0] == '0']
                if not norm:
                    ok = False
                    break
                code = norm[o % len(norm)]
            vals.append(_apply_code(code, vals[a], vals[b], mask))
            witness.append((a, b, code))
        if ok and len(vals) > n:
            gates = vals[n:]
            cols = [gates[p % len(gates)] for p in case['out_pick']]
    # constraints -> concrete calls
    calls = []
    internal = list(range(n, n + G))
    allg = list(range(n + G))
    for c in case['constraints']:
        if not internal:
            break
        g = internal[c['a'] % len(internal)]
        if c['k'] == 'invalid':
            calls.append(('invalid', [0, 1, 2, 3, 4, 5, 6, 7, 6, 7, 6, 6][c['a'] % 12], g, c['b'], c['c']))
            continue
        if c['k'].startswith('wit_'):
            # constraints read off the circuit the target was built from: the constrained instance stays satisfiable
            if len(witness) != G:
                continue
            wa, wb, wcode = witness[g - n]
            wt = TYPE_OF_CODE[wcode]
            if c['k'] == 'wit_bad_order':
                # a call that has to be refused (second predecessor not above the first) whose FIRST predecessor is a gate
                # the witness does not read there: nothing of it may stick
                others = [q for q in range(g) if q not in (wa, wb)]
                if others:
                    p1 = others[c['b'] % len(others)]
                    calls.append(('invalid', 8, g, p1, p1 if c['c'] % 2 else c['c'] % (p1 + 1)))
                continue
            if c['k'] == 'wit_first':
                calls.append(('fix', g, wa, None, None))
            elif c['k'] == 'wit_second':
                calls.append(('fix', g, None, wb, None))
            elif c['k'] == 'wit_both':
                calls.append(('fix', g, wa, wb, None))
            elif c['k'] == 'wit_type':
                calls.append(('fix', g, wa if c['b'] % 2 else wb, None, wt))
            elif c['k'] == 'wit_both_type':
                calls.append(('fix', g, wa, wb, wt))
            elif c['k'] == 'wit_type_flip00':
                # the sibling operation that differs from the witness gate only on (0,0)
                flipped = ('1' if wcode[0] == '0' else '0') + wcode[1:]
                calls.append(('fix', g, wa, wb, TYPE_OF_CODE[flipped]))
            else:
                unused = [x for x in range(g) if x not in (wa, wb)]
                if unused:
                    calls.append(('forbid', unused[c['b'] % len(unused)], g))
            continue
        if g < 2:
            continue
        f = c['b'] % g
        s = c['c'] % g
        if c['k'] == 'fix_first':
            calls.append(('fix', g, f, None, None))
        elif c['k'] == 'fix_second':
            calls.append(('fix', g, None, s, None))
        elif c['k'] == 'fix_both':
            if f == s:
                s = (f + 1) % g
            f, s = min(f, s), max(f, s)
            calls.append(('fix', g, f, s, None))
        elif c['k'] == 'fix_type':
            calls.append(('fix', g, f, None, c['t']))
        elif c['k'] == 'fix_first_type':
            if f == s:
                s = (f + 1) % g
            f, s = min(f, s), max(f, s)
            calls.append(('fix', g, f, s, c['t']))
        else:
            calls.append(('forbid', f, g))
    return cols, calls


def enumerate_space(n, G, ops_codes, care, targets, normalized, calls, limit):
    """Own depth-first search over the canonical space. Returns ('found'|'none'|'inconclusive', visited)."""
    pats, mask = refsem.full_patterns(n)
    codes = [c for c in ops_codes if not (normalized and c[0] == '1')]
    must = {}
    both = {}
    typ = {}
    forbid = {}
    for call in calls:
        if call[0] == 'fix':
            _, g, f, s, t = call
            if f is not None and s is not None:
                both[g] = both.get(g, set()) | {(f, s)}
                if len(both[g]) > 1:
                    return 'none', 0
            elif f is not None:
                must.setdefault(g, set()).add(f)
            elif s is not None:
                must.setdefault(g, set()).add(s)
            if t is not None:
                typ.setdefault(g, set()).add(CODE_OF_TYPE[t])
        elif call[0] == 'forbid':
            forbid.setdefault(call[2], set()).add(call[1])
    options = []
    size = 1
    for g in range(n, n + G):
        prs = [(a, b) for a, b in itertools.combinations(range(g), 2)
               if all(x in (a, b) for x in must.get(g, ())) and not (forbid.get(g, set()) & {a, b})
               and (g not in both or (a, b) in both[g])]
        cs = [c for c in codes if all(c == t for t in typ.get(g, ()))]
        if len(typ.get(g, ())) > 1:
            cs = []
        options.append((prs, cs))
        size *= max(1, len(prs) * len(cs))
        if not prs or not cs:
            return 'none', 0
    if G == 0:
        return 'none', 0
    if size > limit:
        return 'inconclusive', size
    visited = 0
    vals = list(pats)

    def rec(i):
        nonlocal visited
        if i == G:
            visited += 1
            gates = vals[n:]
            return all(any((gv ^ tv) & cm == 0 for gv in gates) for tv, cm in zip(targets, care))
        prs, cs = options[i]
        for a, b in prs:
            for c in cs:
                vals.append(_apply_code(c, vals[a], vals[b], mask))
                if rec(i + 1):
                    return True
                vals.pop()
        return False

    return ('found' if rec(0) else 'none'), visited


def check_synthesis(case):
    core = cirbo_core()
    from cirbo.core.logic import DontCare
    from cirbo.core.python_function import PyFunctionModel
    from cirbo.core.truth_table import TruthTableModel
    from cirbo.synthesis import circuit_search as cs
    from cirbo.synthesis import exception as sx
    import pysat.solvers as shim

    n, m, G = case['n'], case['m'], case['G']
    W = 1 << n
    full = (1 << W) - 1
    cols, calls = resolve_case(case)
    dcs = case['dcs']
    table = [[DontCare if (dcs[i] >> j) & 1 else bool((cols[i] >> j) & 1) for j in range(W)] for i in range(m)]
    transport = case.get('transport', 'none')

    def sent(obj):
        # how a table / model reaches the finder: as built, deep-copied, or through pickle (as from a worker process);
        # the don't-care marks are then other objects of the same kind. Objects that cannot be copied are sent as they are.
        import copy
        import pickle

        try:
            if transport == 'deepcopy':
                return copy.deepcopy(obj)
            if transport == 'pickle':
                return pickle.loads(pickle.dumps(obj))
        except Exception:  # noqa
            pass
        return obj

    if transport != 'none' and case['model_kind'] != 'tt_str':
        table = sent(table)
    if case['model_kind'] == 'tt':
        model = sent(TruthTableModel([list(r) for r in table]))
    elif case['model_kind'] == 'tt_str':
        model = TruthTableModel([''.join('*' if (dcs[i] >> j) & 1 else ('1' if (cols[i] >> j) & 1 else '0') for j in range(W)) for i in range(m)])
    else:
        def f(args):
            j = 0
            for a in args:
                j = (j << 1) | (1 if a else 0)
            if case['model_kind'] == 'py_int':
                return [int(table[i][j]) if isinstance(table[i][j], bool) else table[i][j] for i in range(m)]
            return [table[i][j] for i in range(m)]
        model = PyFunctionModel(f, input_size=n, output_size=m)
    ops = _basis_ops(case['basis'])
    codes = [OPS[o] for o in ops]
    finder = cs.CircuitFinderSat(model, G, basis=_basis_arg(case['basis']), need_normalized=case['normalized'])
    cls = {f'n={n}', f'G={G}', 'basis:' + case['basis']['kind'], 'model:' + case['model_kind']} | ({'outputs>=11'} if m >= 11 else set())
    if transport != 'none' and case['model_kind'] != 'tt_str' and any(dcs):
        cls.add('dont_care_marks_copied')
    applied = []
    for call in calls:
        if call[0] == 'invalid':
            _, which, g, b, c = call
            try:
                if which == 0:
                    finder.fix_gate(g)  # no predecessor at all
                    exp = 'FixGateError'
                elif which == 1:
                    finder.fix_gate(n + G + 3, first_predecessor=0)
                    exp = 'GateIsAbsentError'
                elif which == 2:
                    finder.fix_gate(g, first_predecessor=n + G + 2)
                    exp = 'GateIsAbsentError'
                elif which == 3:
                    finder.fix_gate(g, first_predecessor=g)
                    exp = 'FixGateOrderError'
                elif which == 4:
                    finder.forbid_wire(g, g)
                    exp = 'ForbidWireOrderError'
                elif which == 8:
                    finder.fix_gate(g, first_predecessor=b, second_predecessor=c)
                    exp = 'FixGateOrderError'
                elif which in (6, 7):
                    # both predecessors given, the second one not above the first (the first one alone would be fine)
                    p1 = b % g if g > 0 else 0
                    p2 = p1 if which == 7 else (c % (p1 + 1))
                    finder.fix_gate(g, first_predecessor=p1, second_predecessor=p2)
                    exp = 'FixGateOrderError'
                else:
                    finder.forbid_wire(0, n + G + 1)
                    exp = 'GateIsAbsentError'
            except sx.CircuitFinderError as e:
                cls.add('invalid_constraint_rejected')
                continue
            raise Violation('invalid_constraint_accepted', f'invalid constraint call #{which} on gate {g} did not raise')
        if call[0] == 'fix':
            _, g, f, s, t = call
            kw = {}
            if f is not None:
                kw['first_predecessor'] = f
            if s is not None:
                kw['second_predecessor'] = s
            if t is not None:
                kw['gate_type'] = getattr(core.gate, t)
            finder.fix_gate(g, **kw)
            cls.add('fix:' + ('both' if f is not None and s is not None else 'first' if f is not None else 'second') + ('+type' if t else ''))
        else:
            finder.forbid_wire(call[1], call[2])
            cls.add('forbid_wire')
        applied.append(call)
    care = [full ^ d for d in dcs]
    desc = (f'n={n} m={m} G={G} basis={case["basis"]} normalized={case["normalized"]} table='
            f'{["".join("*" if (dcs[i] >> j) & 1 else str((cols[i] >> j) & 1) for j in range(W)) for i in range(m)]} constraints={applied}')
    verdict = None
    # the same finder may be asked more than once; every answer has to stand on its own (the last one is examined)
    refined = False
    for attempt in range(2 if (case.get('again') or case.get('refine')) else 1):
        previous = verdict
        if attempt and case.get('refine') and previous == 'found' and G >= 1:
            # "another one, please": a wire the first answer uses is forbidden on the same finder, which is asked again
            try:
                first_nl = refsem.from_circuit(circ)
                pos = {str(i): i for i in range(n)}
                pos.update({f's{k}': k for k in range(n, n + G)})
                k = n + (case['refine'] % G)
                opr = next(g_[2] for g_ in first_nl['gates'] if g_[0] == f's{k}')
                fr = pos[opr[(case['refine'] // 7) % 2]]
            except (StopIteration, KeyError, IndexError):
                fr = None  # (the first answer is not of the promised shape; the second one is examined below all the same)
            if fr is not None:
                finder.forbid_wire(fr, k)
                applied = list(applied) + [('forbid', fr, k)]
                desc += f' then forbid_wire({fr}, {k}) after a first answer'
                refined = True
                cls.add('refined_after_answer')
        try:
            if case['time_limit']:
                circ = finder.find_circuit(time_limit=case['time_limit'])
                cls.add('time_limit')
            else:
                circ = finder.find_circuit()
            verdict = 'found'
        except sx.NoSolutionError:
            verdict = 'none'
        except sx.SolverTimeOutError:
            return {'nt': False, 'cls': cls | {'inconclusive_timeout'}}
        if attempt:
            cls.add('asked_twice')
            if verdict != previous and not refined:
                raise Violation('verdict_changes_on_repeat', f'{desc}: first find_circuit said {previous}, the second {verdict}')
    # get_cnf() is equisatisfiable with the verdict
    cnf = [list(c) for c in finder.get_cnf()]
    nv = max([abs(l) for c in cnf for l in c] + [0])
    sat = shim.solve_clauses(cnf, nv) is not None
    if sat != (verdict == 'found'):
        raise Violation('cnf_vs_verdict', f'{desc}: get_cnf() is {"SAT" if sat else "UNSAT"} but find_circuit said {verdict}')
    if verdict == 'found':
        nl = refsem.from_circuit(circ)
        if nl['inputs'] != [str(i) for i in range(n)]:
            raise Violation('sound:inputs', f'{desc}: inputs {nl["inputs"]}')
        labels = [g[0] for g in nl['gates'] if g[1] != 'INPUT']
        if sorted(labels) != sorted(f's{k}' for k in range(n, n + G)):
            raise Violation('sound:gate_count', f'{desc}: gates {labels}, requested {G}')
        idx = {str(i): i for i in range(n)}
        idx.update({f's{k}': k for k in range(n, n + G)})
        gmap = {g[0]: g for g in nl['gates']}
        for k in range(n, n + G):
            lab, ty, opr = gmap[f's{k}']
            if len(opr) != 2 or opr[0] not in idx or opr[1] not in idx:
                raise Violation('sound:operands', f'{desc}: gate {lab} = {ty}{opr}')
            a, b = idx[opr[0]], idx[opr[1]]
            if not (a < b < k):
                raise Violation('sound:operand_order', f'{desc}: gate {lab} reads {opr} (need two distinct earlier nodes, lower index first)')
            code = CODE_OF_TYPE.get(ty)
            if code is None or code not in codes:
                raise Violation('sound:basis', f'{desc}: gate {lab} has type {ty} outside the basis {ops}')
            if case['normalized'] and code[0] == '1':
                raise Violation('sound:normalized', f'{desc}: gate {lab} = {ty} has g(0,0)=1')
        if len(nl['outputs']) != m or any(not o.startswith('s') for o in nl['outputs']):
            raise Violation('sound:outputs', f'{desc}: outputs {nl["outputs"]}')
        try:
            t = refsem.tables(nl)
        except (refsem.ArityError, ValueError, KeyError) as e:
            raise Violation('sound:malformed', f'{desc}: {e}')
        for i, o in enumerate(nl['outputs']):
            if (t[o] ^ cols[i]) & care[i]:
                raise Violation('sound:function', f'{desc}: output {i} ({o}) disagrees with the model on a defined entry')
        for call in applied:
            if call[0] == 'fix':
                _, g, f, s, ty = call
                lab, gty, opr = gmap[f's{g}']
                got = (idx[opr[0]], idx[opr[1]])
                if f is not None and s is not None and got != (f, s):
                    raise Violation('sound:fix_gate_both', f'{desc}: gate s{g} reads {got}, fixed to {(f, s)}')
                if f is not None and s is None and f not in got:
                    raise Violation('sound:fix_gate_first', f'{desc}: gate s{g} reads {got}, first predecessor fixed to {f}')
                if s is not None and f is None and s not in got:
                    raise Violation('sound:fix_gate_second', f'{desc}: gate s{g} reads {got}, second predecessor fixed to {s}')
                if ty is not None and gty != ty:
                    raise Violation('sound:fix_gate_type', f'{desc}: gate s{g} is {gty}, fixed to {ty}')
            else:
                _, fr, to = call
                lab, gty, opr = gmap[f's{to}']
                if fr in (idx[opr[0]], idx[opr[1]]):
                    raise Violation('sound:forbid_wire', f'{desc}: gate s{to} reads forbidden node {fr}')
        cls.add('found')
        return {'nt': G >= 2, 'cls': cls, 'key': [n, cols, dcs, G, case['basis'], case['normalized'], applied],
                'sample': {'desc': desc, 'circuit': circ.format_circuit()}}
    # completeness: nothing in the canonical space may satisfy the request
    limit = case.get('limit', 400_000)
    res, visited = enumerate_space(n, G, codes, care, cols, case['normalized'], applied, limit)
    if res == 'found':
        raise Violation('incomplete', f'{desc}: NoSolutionError, but the reference enumeration finds a circuit')
    cls.add('no_solution_confirmed' if res == 'none' else 'no_solution_inconclusive')
    return {'nt': res == 'none' and visited >= 100 and G >= 1, 'cls': cls, 'count': {'candidates_enumerated': visited},
            'key': [n, cols, dcs, G, case['basis'], case['normalized'], applied], 'sample': {'desc': desc, 'verdict': 'NoSolution'}}


SPEC = {
    'id': 'C06',
    'rule': ('Hypothesis function models (n 1-3 (4 thorough), m 1-3, random or realisable-by-construction targets, don\'t-cares per '
             'cell / whole column / whole row / everything; TruthTableModel in value and string form, PyFunctionModel) x gate budget '
             '0-4 (5) x basis AIG/XAIG/FULL as enum / string / lower-case string or a custom operation list x need_normalized x up to 3 '
             'fix_gate (first / second / both predecessors, optional type) and forbid_wire calls (plus invalid calls that must raise) x '
             'time_limit None / 60 (forked solver). Soundness: validity predicate on the decoded circuit (labels, exactly G gates, two '
             'distinct earlier operands lower index first, type code in basis, outputs at gates, table agrees on every defined entry, '
             'every imposed constraint, normalisation) and get_cnf() equisatisfiable with the verdict. Completeness: on NoSolutionError '
             'an own depth-first enumeration of the same canonical space must find nothing (spaces above the bound are inconclusive). '
             'Non-trivial: found with >=2 gates, or NoSolution confirmed over >=100 candidates.'
             ' Added during the build: models answering 0 / 1 instead of False / True, 10-13 outputs, the same finder asked twice (also with a wire of the first answer forbidden in between), transported models, refused constraint calls incl. descending predecessor pairs derived from the witness circuit (nothing of a refused call may stick).'),
    'assumptions': ['pysat replaced by a z3-backed stand-in: SAT models re-checked, UNSAT answers cross-checked by the reference enumeration'],
    'subs': [Sub('synthesis', cases, check_synthesis, {'quick': 2400, 'thorough': 72000}, shrink_quick=False)],
    'required_classes': {'synthesis': ['refined_after_answer', 'found', 'no_solution_confirmed', 'fix:first', 'fix:second', 'fix:both', 'forbid_wire',
                                       'basis:custom', 'basis:FULL', 'basis:AIG', 'time_limit', 'invalid_constraint_rejected',
                                       'model:py_int', 'outputs>=11']},
}
