"""C18 - simplification passes achieve their stated effect; pipelines equal sequencing."""

from __future__ import annotations

import collections

from props import simp
from vlib import build, gen, refsem
from vlib.runner import Sub, Violation

NEG = ('NOT', 'LNOT', 'RNOT')
BUF = ('IFF', 'LIFF', 'RIFF')
UNARYISH = NEG + BUF


def _sig_operand(typ, ops):
    return ops[1] if typ in ('RNOT', 'RIFF') else ops[0]


def check_effects(case):
    nl, spec = case['nl'], case['spec']
    c = simp.build_for_pass(case)
    res = simp.apply_spec(spec, c, reuse=bool(case.get('reuse_instance')), hand=case.get('hand', 'list'))
    atoms = simp.atoms_of(spec)
    # pipelines equal sequencing of the constituent passes
    seq = c
    for a in atoms:
        seq = simp.make_atom(a).transform(seq)
    if not (res == seq):
        raise Violation('pipeline_vs_sequence',
                        f'pipeline {spec} gives {build.bench_text(refsem.from_circuit(res))!r} but applying '
                        f'{atoms} one after another gives {build.bench_text(refsem.from_circuit(seq))!r}')
    cls = simp.spec_classes(spec)
    if case.get('reuse_instance'):
        cls.add('pass_object_reused')
    if spec[0] == 'list':
        cls.add('list_as:' + case.get('hand', 'list'))
    typ = {g[0]: g[1] for g in nl['gates']}
    changed = False
    if len(atoms) == 1 and spec[0] != 'cleanup':
        a = atoms[0]
        rn = refsem.from_circuit(res)
        rtyp = {g[0]: g[1] for g in rn['gates']}
        changed = sorted(map(repr, rn['gates'])) != sorted(map(repr, nl['gates'])) or rn['outputs'] != nl['outputs']
        if a[0] == 'RRG':
            reach = refsem.reachable(nl)
            exp = set(reach) if a[1] else set(reach) | set(nl['inputs'])
            if set(rtyp) != exp:
                raise Violation('rrg_gate_set', f'RRG(removal={a[1]}): gates {sorted(rtyp)} expected {sorted(exp)}')
            for lab, ty, ops in rn['gates']:
                if [lab, ty, ops] not in nl['gates']:
                    raise Violation('rrg_gate_changed', f'gate {lab} was altered')
            exp_in = [i for i in nl['inputs'] if (i in reach or not a[1])]
            if rn['inputs'] != exp_in or rn['outputs'] != nl['outputs']:
                raise Violation('rrg_interface', f'inputs {rn["inputs"]} outputs {rn["outputs"]}')
            twice = simp.make_atom(a).transform(res)
            if not (twice == res):
                raise Violation('rrg_idempotent', 'RRG(RRG(c)) != RRG(c)')
        elif a[0] == 'MDG':
            seen = {}
            for lab, ty, ops in rn['gates']:
                if ty == 'INPUT':
                    continue
                key = (ty, tuple(sorted(ops)) if ty in refsem.SYMMETRIC else tuple(ops))
                if key in seen:
                    raise Violation('duplicates_remain', f'{seen[key]} and {lab} are both {ty}{ops}')
                seen[key] = lab
        elif a[0] == 'MEG':
            t = refsem.tables(rn)
            seen = {}
            for lab, ty, ops in rn['gates']:
                if ty == 'INPUT':
                    continue
                if t[lab] in seen:
                    raise Violation('equivalents_remain', f'{seen[t[lab]]} and {lab} have the same truth table')
                seen[t[lab]] = lab
        elif a[0] == 'MU':
            unary_types = {t_ for t_ in typ.values() if t_ in UNARYISH}
            if unary_types and unary_types <= set(NEG):
                cls.add('mu_all_negations')
                for lab, ty, ops in rn['gates']:
                    if ty in NEG and rtyp[_sig_operand(ty, ops)] in NEG:
                        raise Violation('negation_of_negation', f'{lab} = {ty}{ops} negates a negation')
            if unary_types and unary_types <= set(BUF):
                cls.add('mu_all_buffers')
                for lab, ty, ops in rn['gates']:
                    for o in ops:
                        if rtyp[o] in BUF:
                            raise Violation('buffer_operand', f'{lab} = {ty}{ops} reads buffer {o}')
                for o in rn['outputs']:
                    if rtyp[o] in BUF:
                        raise Violation('buffer_output', f'output {o} is a buffer')
    else:
        changed = not (res == c)
        # what the LAST constituent pass promises holds for the result of the whole pipeline as well
        rn = refsem.from_circuit(res)
        if atoms and atoms[-1][0] == 'MDG':
            seen = {}
            for lab, ty, ops in rn['gates']:
                if ty == 'INPUT':
                    continue
                key = (ty, tuple(sorted(ops)) if ty in refsem.SYMMETRIC else tuple(ops))
                if key in seen:
                    raise Violation('duplicates_remain', f'after a pipeline ending in MergeDuplicateGates: {seen[key]} and {lab} are both {ty}{ops}')
                seen[key] = lab
        if atoms and atoms[-1][0] == 'MEG':
            t = refsem.tables(rn)
            seen = {}
            for lab, ty, ops in rn['gates']:
                if ty == 'INPUT':
                    continue
                if t[lab] in seen:
                    raise Violation('equivalents_remain', f'after a pipeline ending in MergeEquivalentGates: {seen[t[lab]]} and {lab} have the same truth table')
                seen[t[lab]] = lab
    nt = len(atoms) >= 2 and changed
    if len(nl['inputs']) >= 7:
        cls.add('inputs>=7')
    return {'nt': nt or (len(atoms) == 1 and changed), 'cls': cls | gen.classify(nl) | simp.netlist_twin_classes(nl),
            'key': [nl['inputs'], nl['gates'], nl['outputs'], spec],
            'sample': {'bench': build.bench_text(nl), 'pipeline': spec}}


SPEC = {
    'id': 'C18',
    'rule': ('Same netlist / pipeline generators as C03 (incl. circuits whose unary gates are all negations or all '
             'buffers, literal duplicates, repeated idempotent passes, RRG with both flag values adjacent). Oracle: '
             'for single passes the post-condition of the statement (RRG gate set = own reachability + inputs, '
             'idempotence; no duplicate (type, operands) up to order for symmetric types; no two non-input gates '
             'with equal reference table; no negation of a negation / no buffer as operand or output under the '
             'stated pre-conditions); for every pipeline: result == applying the constituent passes one after '
             'another (Circuit.__eq__). Non-trivial: the pass / pipeline changes the circuit.'
             " Added during the build: as C03, plus a harness-defined visibly non-idempotent pass whose object may be listed twice, and the last constituent pass's post-condition applied to the result of the whole pipeline."),
    'assumptions': ['reference truth tables and reachability from vlib/refsem.py'],
    'subs': [Sub('effects', lambda tier: simp.cases(tier, user_passes=True), check_effects, {'quick': 3000, 'thorough': 200000})],
    'required_classes': {'effects': ['pass:RRG', 'pass:RRG+rm', 'pass:MU', 'pass:MDG', 'pass:MEG', 'top:pipe',
                                     'top:comp', 'top:list', 'top:cleanup', 'adjacent_equal',
                                     'adjacent_rrg_flags_differ', 'mu_all_negations', 'mu_all_buffers', 'declared_dependencies', 'inputs>=7']},
}
