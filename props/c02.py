"""C02 - circuits stay well formed under every history of public mutations (rule-based state machine)."""

from __future__ import annotations

import copy

from hypothesis import strategies as st
from hypothesis.stateful import RuleBasedStateMachine, initialize, precondition, rule

from props.c19 import plan_replacement, with_downstream_input
from vlib import build, gen, refsem, wellformed
from vlib.env import cirbo_core, UuidStream
from vlib.runner import Sub, Violation

POOL = 3
TYPES = list(gen.ALL_TYPES)
INTERESTING = {'connect_right_like', 'rename_gate', 'replace_subcircuit', 'into_bench', 'remove_gate', 'remove_block'}


def _arity(typ, a):
    if typ in refsem.CONST:
        return 0 if a % 3 else 2  # constants may carry (ignored) operands
    if typ in refsem.UNARY:
        return 1
    if typ in refsem.FIXED_BINARY:
        return 2
    return 2 + a % 3


class Interp:
    """Interprets abstract operation descriptors against a pool of circuits.  Pure function of the log."""

    def __init__(self):
        self.core = cirbo_core()
        self.pool = [self.core.Circuit() for _ in range(POOL)]
        self.log: list[dict] = []
        self.adopted = 0
        self.kinds: list[str] = []
        self.rejected = 0
        self.foreign_exc: dict[str, int] = {}
        self.fresh = 0
        self.retired: list[str] = []  # labels that existed once (renamed away / removed): re-used on purpose

    # -- helpers
    def _labels(self, c):
        return list(c.gates)

    def _pick(self, c, i):
        labs = self._labels(c)
        return labs[i % len(labs)] if labs else '__none__'

    def _fresh(self):
        self.fresh += 1
        return f'n{self.fresh}'

    def _small_netlist(self, op):
        """A small attached circuit described by plain ints."""
        n_in = op.get('on', 1) % 3
        labs = [f'a{self.fresh}_{i}' for i in range(n_in)]
        self.fresh += 1
        gates = [[l, 'INPUT', []] for l in labs]
        for k, (t, x, y) in enumerate(op.get('og', [])):
            typ = TYPES[t % len(TYPES)]
            avail = [g[0] for g in gates]
            if not avail:
                typ = 'ALWAYS_TRUE' if t % 2 else 'ALWAYS_FALSE'
            ar = _arity(typ, x + y) if avail else 0
            ops = [avail[(x + q * (y + 1)) % len(avail)] for q in range(ar)]
            gates.append([f'a{self.fresh}_g{k}', typ, ops])
        outs = [gates[(o) % len(gates)][0] for o in op.get('oo', [])] if gates else []
        return {'inputs': labs, 'gates': gates, 'outputs': outs}

    # -- one step
    def step(self, op):
        self.log.append(op)
        core = self.core
        gate = core.gate
        idx = op.get('c', 0) % POOL
        target = self.pool[idx]
        # circuits that stem from one another (copy.copy, compositions) share no mutable state: a call on one circuit
        # leaves every other circuit of the pool as it was
        bystanders = {j: wellformed.snapshot(self.pool[j]) for j in range(POOL) if j != idx}
        work = copy.deepcopy(target)
        # every third step the circuit about to be changed has a fresh copy.copy standing next to it
        twin = twin_before = None
        if len(self.log) % 3 == 0:
            try:
                twin = copy.copy(work)
                twin_before = wellformed.snapshot(twin)
            except Exception:  # noqa
                twin = None
        name = op['op']
        kind = name
        try:
            with UuidStream(op.get('seed', 0)):
                if name == 'new':
                    if op.get('labels'):
                        work = core.Circuit.bare_circuit_with_labels([f'i{self.fresh}_{k}' for k in range(op['n'] % 4)],
                                                                     set_as_outputs=bool(op.get('as_out')))
                        self.fresh += 1
                    else:
                        work = core.Circuit.bare_circuit(op['n'] % 4, prefix=op.get('prefix', ''), set_as_outputs=bool(op.get('as_out')))
                elif name == 'add_gate':
                    typ = TYPES[op['t'] % len(TYPES)]
                    labs = self._labels(work)
                    if not labs and typ not in refsem.CONST:
                        typ = 'ALWAYS_TRUE'
                    ar = _arity(typ, op['a']) if labs else 0
                    operands = tuple(labs[(op['x'] + q * (op['y'] + 1)) % len(labs)] for q in range(ar)) if ar else ()
                    if op.get('absent_operand') and ar:
                        operands = ('__absent__',) + operands[1:]
                    label = self._pick(work, op['x']) if op.get('clash') else self._fresh()
                    if op.get('reuse') and self.retired:
                        label = self.retired[op['y'] % len(self.retired)]
                    if op.get('emplace'):
                        work.emplace_gate(label, getattr(gate, typ), operands)
                    else:
                        work.add_gate(core.Gate(label, getattr(gate, typ), operands))
                elif name == 'add_inputs':
                    work.add_inputs([self._fresh() for _ in range(1 + op['n'] % 2)] + ([self._pick(work, op['n'])] if op.get('clash') else []))
                elif name == 'remove_gate':
                    labs = self._labels(work)
                    # prefer a gate nobody uses
                    free = [l for l in labs if not work.get_gate_users(l)]
                    lab = free[op['x'] % len(free)] if free and not op.get('any') else self._pick(work, op['x'])
                    work.remove_gate(lab)
                    self.retired.append(lab)
                elif name == 'rename_gate':
                    old = self._pick(work, op['x'])
                    new = self._pick(work, op['y']) if op.get('clash') else self._fresh()
                    if op.get('reuse') and self.retired:
                        new = self.retired[op['y'] % len(self.retired)]
                    work.rename_gate(old, new)
                    self.retired.append(old)
                elif name == 'mark_as_output':
                    work.mark_as_output(self._pick(work, op['x']) if not op.get('absent') else '__absent__')
                elif name == 'set_outputs':
                    arg = [self._pick(work, x) for x in op['xs']] if self._labels(work) else []
                    work.set_outputs(arg)
                    arg.append('__junk__')  # the caller's list is the caller's: later edits must not reach the circuit
                elif name == 'set_inputs':
                    ins = list(work.inputs)
                    if ins:
                        k = op['x'] % len(ins)
                        ins = ins[k:] + ins[:k]
                    bad = op.get('invalid')
                    if bad is True or bad == 'drop' or (bad and len(ins) < 2):
                        ins = ins[:-1] if ins else ['__absent__']
                    elif bad == 'repeat':
                        ins[-1] = ins[0]  # right length, every entry an INPUT gate - one twice, one missing
                    elif bad == 'non_input':
                        others = [l for l in self._labels(work) if l not in ins]
                        ins[-1] = others[op['x'] % len(others)] if others else '__absent__'
                    elif bad == 'extra':
                        ins.append(ins[0])
                    work.set_inputs(ins)
                    ins.append('__junk__')
                elif name == 'order_inputs':
                    ins = list(work.inputs)
                    part = [ins[(op['x'] + q) % len(ins)] for q in range(min(len(ins), 1 + op['y'] % 2))] if ins else []
                    work.order_inputs(list(dict.fromkeys(part)))
                elif name == 'order_outputs':
                    outs = list(work.outputs)
                    part = [outs[(op['x']) % len(outs)]] if outs else []
                    work.order_outputs(part)
                elif name == 'replace_inputs':
                    ins = list(work.inputs)
                    t = [ins[op['x'] % len(ins)]] if ins else []
                    f = [ins[op['y'] % len(ins)]] if ins and ins[op['y'] % len(ins)] not in t else []
                    if op.get('many') and len(ins) >= 2:
                        # several inputs in one list, listed in an order of their own (not the circuit's input order)
                        k = 2 + op['y'] % min(3, len(ins) - 1)
                        t = [ins[(op['x'] + q * (1 + op['y'] % 3)) % len(ins)] for q in range(k)][::-1]
                        t = list(dict.fromkeys(t))
                        f = [] if op['y'] % 2 else [i for i in ins if i not in t][-1:]
                        if op['x'] % 2:
                            t, f = f, t
                    if op.get('non_input'):
                        t = [self._pick(work, op['x'])]
                    work.replace_inputs(t, f)
                    t.append('__junk__')
                    f.append('__junk__')
                elif name == 'own_lists':
                    # the circuit's own live lists as arguments (c.set_outputs(c.inputs), c.replace_inputs(c.inputs, []) ...)
                    v = op['v'] % 10
                    labs = self._labels(work)
                    if v == 0:
                        work.set_outputs(work.inputs)
                    elif v == 1:
                        work.set_outputs(work.outputs)
                    elif v == 2:
                        work.set_inputs(work.inputs)
                    elif v == 3:
                        work.order_inputs(work.inputs)
                    elif v == 4:
                        work.order_outputs(work.outputs)
                    elif v == 5:
                        work.replace_inputs(work.inputs, [])
                    elif v == 6:
                        work.replace_inputs([], work.inputs)
                    elif v == 7:
                        gs = list(dict.fromkeys(list(work.outputs) + ([labs[op['x'] % len(labs)]] if labs else [])))
                        work.make_block(op.get('name', 'B'), gs, work.outputs, work.inputs if op['x'] % 2 else None)
                    elif v == 8:
                        work.make_block_from_slice(op.get('name', 'S'), work.inputs, work.outputs)
                    else:
                        other = build.build(self._small_netlist(op))
                        work.connect_circuit(other, work.outputs, other.inputs, name=op.get('name', ''))
                elif name == 'connect':
                    if op.get('from_pool'):
                        other = copy.deepcopy(self.pool[op['j'] % POOL])
                    else:
                        other = build.build(self._small_netlist(op))
                    right = bool(op.get('right'))
                    variant = op.get('variant', 'connect_circuit')
                    kw = dict(name=op.get('name', ''), add_prefix=op.get('add_prefix', True))
                    wl, ol = self._labels(work), list(other.gates)
                    this, oth = [], []
                    for a, b in op.get('pairs', []):
                        if right:
                            pt, po = list(work.inputs), (ol if op.get('internal') else list(other.inputs))
                        else:
                            pt, po = (wl if op.get('internal') else list(work.inputs) or wl), list(other.inputs)
                        if pt and po:
                            t, o = pt[a % len(pt)], po[b % len(po)]
                            if not op.get('rep_ok') and ((right and t in this) or (not right and o in oth)):
                                continue
                            this.append(t)
                            oth.append(o)
                    if variant == 'connect_left':
                        this = [wl[(op['x'] + q) % len(wl)] for q in range(len(other.inputs))] if wl else []
                        work.connect_left(other, this, **kw)
                        right = False
                    elif variant == 'connect_right':
                        oth = [ol[(op['x'] + q) % len(ol)] for q in range(len(work.inputs))] if ol else []
                        work.connect_right(other, oth, **kw)
                        right = True
                    elif variant == 'connect_inputs':
                        work.connect_inputs(other, **kw)
                        right = True
                    elif variant == 'extend':
                        work.extend_circuit(other, right_connect=right, **kw)
                    elif variant == 'extend_explicit':
                        work.extend_circuit(other, this_connectors=this, other_connectors=oth, right_connect=right, **kw)
                    elif variant == 'add_circuit':
                        work.add_circuit(other, **kw)
                        right = False
                    else:
                        work.connect_circuit(other, this, oth, right_connect=right, **kw)
                        this.append('__junk__')
                        oth.append('__junk__')
                    kind = 'connect_right_like' if right else 'connect_left_like'
                elif name == 'replace_subcircuit':
                    nl = refsem.from_circuit(work)
                    plan = plan_replacement(nl, op['roots'], op['grow'], op.get('form', 'dnf'), op.get('label_mode', 'fresh'),
                                            prefix=f'rs{len(self.log)}_')
                    if plan is None or plan.get('too_wide'):
                        raise core.cexc.ReplaceSubcircuitError()
                    rep = plan['rep']
                    im, om = dict(plan['inputs_mapping']), dict(plan['outputs_mapping'])
                    if op.get('downstream'):
                        rep = with_downstream_input(nl, plan['S'], plan['I'], plan['need_out'], rep, im, om) or rep
                    sub = build.build({'inputs': rep['inputs'], 'gates': rep['gates'], 'outputs': rep['outputs']})
                    if op.get('unmark'):
                        sub.set_outputs(list(rep['outputs'][:op['unmark'] - 1]))
                    if op.get('drop_output') and len(om) > 1:
                        om.pop(next(iter(om)))
                    work.replace_subcircuit(sub, im, om)
                elif name == 'make_block':
                    labs = self._labels(work)
                    gs = [labs[x % len(labs)] for x in op['xs']] if labs else []
                    outs = gs[-1:]
                    ins = None if op.get('auto_inputs') else [labs[x % len(labs)] for x in op.get('ins', [])] if labs else []
                    work.make_block(op.get('name', 'B'), gs, outs, ins)
                    for lst in (gs, outs, ins):
                        if isinstance(lst, list):
                            lst.append('__junk__')
                elif name == 'make_block_from_slice':
                    labs = self._labels(work)
                    ins = [labs[x % len(labs)] for x in op.get('ins', [])] if labs else []
                    outs = [labs[x % len(labs)] for x in op['xs']] if labs else []
                    if op.get('all_inputs'):
                        ins = list(work.inputs)
                    work.make_block_from_slice(op.get('name', 'S'), ins, outs)
                    ins.append('__junk__')
                    outs.append('__junk__')
                elif name == 'delete_block':
                    names = list(work.blocks)
                    work.delete_block(names[op['x'] % len(names)] if names else '__none__')
                elif name == 'remove_block':
                    names = list(work.blocks)
                    work.remove_block(names[op['x'] % len(names)] if names else '__none__')
                elif name == 'reattach_same_name':
                    # a circuit attached under a name, the block dropped again (its gates stay), the same circuit attached
                    # under the same name once more: refused, or the result is a well-formed circuit
                    labs = self._labels(work)
                    base = [labs[(op['x'] + q) % len(labs)] for q in range(2)] if labs else []
                    other = build.build({'inputs': ['rx', 'ry'], 'outputs': ['ro'] if op.get('marked', True) else [],
                                         'gates': [['rx', 'INPUT', []], ['ry', 'INPUT', []], ['rt', 'OR', ['rx', 'ry']], ['ro', 'NOT', ['rt']]]})
                    bn = op.get('name') or 'RB'
                    conn = base if op.get('full', True) else base[:1]
                    work.connect_circuit(other, list(conn), ['rx', 'ry'][:len(conn)], name=bn)
                    if op.get('drop') == 'remove_gate':
                        work.remove_gate(f'{bn}@ro')
                    else:
                        work.delete_block(bn)
                    work.connect_circuit(other, list(conn), ['rx', 'ry'][:len(conn)], name=bn)
                    kind = 'connect_left_like'
                elif name == 'block_with_hidden_output':
                    # a block one of whose members is a circuit output without being a declared output of the block, then the
                    # block (and its gates) removed again
                    labs = self._labels(work)
                    base = labs[op['x'] % len(labs)] if labs else None
                    u, v, bn = f'hb{self.fresh}_u', f'hb{self.fresh}_v', f'HB{self.fresh}'
                    self.fresh += 1
                    if base is None:
                        work.emplace_gate(u, gate.ALWAYS_TRUE, ())
                    else:
                        work.emplace_gate(u, gate.NOT, (base,))
                    work.emplace_gate(v, gate.AND, (u, base if base is not None else u))
                    outs = list(work.outputs)
                    outs.insert(op['y'] % (len(outs) + 1), u)
                    if op.get('both'):
                        outs.append(v)
                    work.set_outputs(outs)
                    work.make_block(bn, [u, v], [v])
                    if op.get('remove', True):
                        work.remove_block(bn)
                    kind = 'remove_block' if op.get('remove', True) else 'make_block'
                elif name == 'into_bench':
                    work.into_bench()
                elif name == 'copy':
                    work = copy.copy(self.pool[op['j'] % POOL])
                else:
                    raise ValueError(name)
        except core.CirboError:
            self.rejected += 1
            return None
        except Violation:
            raise
        except Exception as e:  # noqa  - the statement is conditional on normal return
            key = f'{name}:{type(e).__name__}'
            self.foreign_exc[key] = self.foreign_exc.get(key, 0) + 1
            return None
        self.pool[idx] = work
        self.adopted += 1
        self.kinds.append(kind)
        self.check_invariant(work, op, kind)
        if twin is not None and name != 'copy' and wellformed.snapshot(twin) != twin_before:
            now = wellformed.snapshot(twin)
            raise Violation('copy_changed_by:' + kind, f'after step {len(self.log)} ({op}): a copy.copy taken just before the call changed in '
                                                       f'{[k for k in twin_before if twin_before[k] != now[k]]}')
        for j, before in bystanders.items():
            if wellformed.snapshot(self.pool[j]) != before:
                now = wellformed.snapshot(self.pool[j])
                raise Violation('other_circuit_changed_by:' + kind, f'after step {len(self.log)} ({op}) on circuit {idx}: circuit {j} changed in '
                                                                    f'{[k for k in before if before[k] != now[k]]}')
        return kind

    def check_invariant(self, c, op, kind):
        pr = wellformed.problems(c)
        if pr:
            raise Violation('illformed_after:' + kind, f'after step {len(self.log)} ({op}): ' + '; '.join(pr[:3]))
        # evaluation agreement: lazy evaluator, topological evaluator and the reference (only arity-correct circuits)
        nl = refsem.from_circuit(c)
        n = len(nl['inputs'])
        if n > 8 or len(nl['gates']) > 120:
            return
        try:
            t = refsem.tables(nl)
        except refsem.ArityError:
            return
        for j in {0, (1 << n) - 1, ((1 << n) * 5) // 7}:
            x = [bool((j >> (n - 1 - i)) & 1) for i in range(n)]
            full = c.evaluate_full_circuit(dict(zip(nl['inputs'], x)))
            for lab in t:
                if full.get(lab) is not bool((t[lab] >> j) & 1):
                    raise Violation('evaluators_disagree_after:' + kind,
                                    f'after step {len(self.log)} ({op}): evaluate_full_circuit gate {lab} = {full.get(lab)!r}')
            if c.evaluate(x) != [bool((t[o] >> j) & 1) for o in nl['outputs']]:
                raise Violation('evaluators_disagree_after:' + kind, f'after step {len(self.log)} ({op}): evaluate({x})')


def run_history(ops):
    it = Interp()
    for op in ops:
        it.step(op)
    return it


def check_history(case):
    it = run_history(case['ops'])
    return history_info(it)


def history_info(it):
    kinds = set(it.kinds)
    nt = it.adopted >= 3 and bool(kinds & INTERESTING)
    cls = {'k:' + k for k in kinds}
    if it.rejected:
        cls.add('had_rejected_call')
    for k in it.foreign_exc:
        cls.add('foreign_exception:' + k)
    return {'nt': nt, 'cls': cls, 'key': [o for o in it.log],
            'count': {'adopted_steps': it.adopted, 'rejected_calls': it.rejected,
                      'non_cirbo_exceptions': sum(it.foreign_exc.values())},
            'sample': {'ops': it.log[:30]}}


I = st.integers(0, 40)
NAMES = st.sampled_from(['', '', 'N', 'M', 'N'])


def make_machine(tier, hooks):
    class CircuitHistories(RuleBasedStateMachine):
        STEP_COUNT = {'quick': 25, 'thorough': 60}

        def __init__(self):
            super().__init__()
            self.it = Interp()
            self.failed = False

        def _do(self, op):
            try:
                self.it.step(op)
            except Violation as v:
                self.failed = True
                hooks.failed({'ops': list(self.it.log)}, v)

        @initialize(n=st.integers(1, 3), n2=st.integers(0, 3))
        def init(self, n, n2):
            self._do({'op': 'new', 'c': 0, 'n': n})
            self._do({'op': 'new', 'c': 1, 'n': n2, 'labels': True, 'as_out': True})

        @rule(c=I, n=I, labels=st.booleans(), as_out=st.booleans(), prefix=st.sampled_from(['', 'p']))
        def new(self, c, n, labels, as_out, prefix):
            self._do({'op': 'new', 'c': c, 'n': n, 'labels': labels, 'as_out': as_out, 'prefix': prefix})

        @rule(c=I, t=I, a=I, x=I, y=I, emplace=st.booleans(), bad=st.integers(0, 19))
        def add_gate(self, c, t, a, x, y, emplace, bad):
            self._do({'op': 'add_gate', 'c': c, 't': t, 'a': a, 'x': x, 'y': y, 'emplace': emplace,
                      'clash': bad == 0, 'absent_operand': bad == 1})

        @rule(c=I, t=I, a=I, x=I, y=I, reuse=st.booleans())
        def add_gate2(self, c, t, a, x, y, reuse):
            self._do({'op': 'add_gate', 'c': c, 't': t, 'a': a, 'x': x, 'y': y, 'emplace': True, 'reuse': reuse})

        @rule(c=I, n=I, clash=st.integers(0, 9))
        def add_inputs(self, c, n, clash):
            self._do({'op': 'add_inputs', 'c': c, 'n': n, 'clash': clash == 0})

        @rule(c=I, x=I, anyg=st.booleans())
        def remove_gate(self, c, x, anyg):
            self._do({'op': 'remove_gate', 'c': c, 'x': x, 'any': anyg})

        @rule(c=I, x=I, y=I, clash=st.integers(0, 7), reuse=st.integers(0, 2))
        def rename_gate(self, c, x, y, clash, reuse):
            self._do({'op': 'rename_gate', 'c': c, 'x': x, 'y': y, 'clash': clash == 0, 'reuse': reuse == 0})

        @rule(c=I, x=I, absent=st.integers(0, 9))
        def mark_as_output(self, c, x, absent):
            self._do({'op': 'mark_as_output', 'c': c, 'x': x, 'absent': absent == 0})

        @rule(c=I, xs=st.lists(I, max_size=3))
        def set_outputs(self, c, xs):
            self._do({'op': 'set_outputs', 'c': c, 'xs': xs})

        @rule(c=I, x=I, invalid=st.integers(0, 9))
        def set_inputs(self, c, x, invalid):
            self._do({'op': 'set_inputs', 'c': c, 'x': x,
                      'invalid': {0: 'drop', 1: 'repeat', 2: 'non_input', 3: 'extra'}.get(invalid)})

        @rule(c=I, x=I, y=I, which=st.booleans())
        def order(self, c, x, y, which):
            self._do({'op': 'order_inputs' if which else 'order_outputs', 'c': c, 'x': x, 'y': y})

        @rule(c=I, x=I, y=I, non_input=st.integers(0, 7))
        def replace_inputs(self, c, x, y, non_input):
            self._do({'op': 'replace_inputs', 'c': c, 'x': x, 'y': y, 'non_input': non_input == 0, 'many': non_input in (1, 2, 3)})

        @rule(c=I, j=I, from_pool=st.booleans(), right=st.booleans(), internal=st.booleans(),
              variant=st.sampled_from(['connect_circuit', 'connect_circuit', 'connect_circuit', 'connect_left', 'connect_right',
                                       'connect_inputs', 'extend', 'extend_explicit', 'add_circuit']),
              pairs=st.lists(st.tuples(I, I).map(list), max_size=3), name=NAMES, add_prefix=st.booleans(), x=I,
              on=I, og=st.lists(st.tuples(I, I, I).map(list), max_size=4), oo=st.lists(I, max_size=2), rep=st.integers(0, 5))
        def connect(self, c, j, from_pool, right, internal, variant, pairs, name, add_prefix, x, on, og, oo, rep):
            if rep == 0 and pairs:
                # the same connector pair listed twice (a repeated replaced gate is to be refused, not half-accepted)
                pairs = pairs + [pairs[0]]
            self._do({'op': 'connect', 'c': c, 'j': j, 'from_pool': from_pool, 'right': right, 'internal': internal,
                      'variant': variant, 'pairs': pairs, 'name': name, 'add_prefix': add_prefix, 'x': x,
                      'on': on, 'og': og, 'oo': oo, 'rep_ok': rep <= 1})

        @rule(c=I, j=I, from_pool=st.booleans(), right=st.booleans(), pairs=st.lists(st.tuples(I, I).map(list), min_size=1, max_size=2),
              which=I, name=NAMES, add_prefix=st.booleans(), on=I, og=st.lists(st.tuples(I, I, I).map(list), min_size=1, max_size=4),
              oo=st.lists(I, max_size=2), variant=st.sampled_from(['connect_circuit', 'connect_circuit', 'extend_explicit']))
        def connect_repeated_pair(self, c, j, from_pool, right, pairs, which, name, add_prefix, on, og, oo, variant):
            # one connector pair listed twice, connectors taken among all gates of the side that allows it
            self._do({'op': 'connect', 'c': c, 'j': j, 'from_pool': from_pool, 'right': right, 'internal': True,
                      'variant': variant, 'pairs': pairs + [pairs[which % len(pairs)]], 'name': name, 'add_prefix': add_prefix,
                      'x': 0, 'on': on, 'og': og, 'oo': oo, 'rep_ok': True})

        @rule(c=I, roots=st.lists(I, min_size=1, max_size=2), grow=st.lists(I, max_size=4),
              form=st.sampled_from(['dnf', 'rm', 'chain']), label_mode=st.sampled_from(['fresh', 'same_boundary']),
              drop=st.integers(0, 9), seed=I)
        def replace_subcircuit(self, c, roots, grow, form, label_mode, drop, seed):
            self._do({'op': 'replace_subcircuit', 'c': c, 'roots': roots, 'grow': grow, 'form': form,
                      'label_mode': label_mode, 'drop_output': drop == 0, 'seed': seed, 'unmark': drop % 3 if drop >= 6 else 0,
                      'downstream': drop in (3, 4, 7, 8)})

        @rule(c=I, roots=st.lists(I, min_size=2, max_size=2), grow=st.lists(I, max_size=3), label_mode=st.sampled_from(['fresh', 'same_boundary']), seed=I)
        def replace_subcircuit_chained(self, c, roots, grow, label_mode, seed):
            # several cone outputs that feed each other inside the replacement (users of a mapped output both inside the
            # replacement and among the surviving host gates)
            self._do({'op': 'replace_subcircuit', 'c': c, 'roots': roots, 'grow': grow, 'form': 'chain',
                      'label_mode': label_mode, 'drop_output': False, 'seed': seed, 'unmark': 0, 'downstream': False})

        @rule(c=I, xs=st.lists(I, min_size=1, max_size=4), ins=st.lists(I, max_size=2), auto=st.booleans(),
              name=st.sampled_from(['B', 'N', 'S']), slice_=st.booleans(), all_inputs=st.booleans())
        def make_block(self, c, xs, ins, auto, name, slice_, all_inputs):
            if slice_:
                self._do({'op': 'make_block_from_slice', 'c': c, 'xs': xs[:2], 'ins': ins, 'name': name, 'all_inputs': all_inputs})
            else:
                self._do({'op': 'make_block', 'c': c, 'xs': xs, 'ins': ins, 'auto_inputs': auto, 'name': name})

        @rule(c=I, x=I, name=st.sampled_from(['RB', 'N', 'M']), full=st.booleans(), marked=st.booleans(),
              drop=st.sampled_from(['delete_block', 'remove_gate']))
        def reattach_same_name(self, c, x, name, full, marked, drop):
            self._do({'op': 'reattach_same_name', 'c': c, 'x': x, 'name': name, 'full': full, 'marked': marked, 'drop': drop})

        @rule(c=I, x=I, y=I, both=st.booleans(), remove=st.sampled_from([True, True, False]))
        def block_with_hidden_output(self, c, x, y, both, remove):
            self._do({'op': 'block_with_hidden_output', 'c': c, 'x': x, 'y': y, 'both': both, 'remove': remove})

        @rule(c=I, x=I, remove=st.booleans())
        def drop_block(self, c, x, remove):
            self._do({'op': 'remove_block' if remove else 'delete_block', 'c': c, 'x': x})

        @rule(c=I, v=I, x=I, name=st.sampled_from(['B', 'N', 'S', '']), on=I, og=st.lists(st.tuples(I, I, I).map(list), max_size=3),
              oo=st.lists(I, max_size=2))
        def own_lists(self, c, v, x, name, on, og, oo):
            self._do({'op': 'own_lists', 'c': c, 'v': v, 'x': x, 'name': name, 'on': on, 'og': og, 'oo': oo})

        @rule(c=I, seed=I)
        def into_bench(self, c, seed):
            self._do({'op': 'into_bench', 'c': c, 'seed': seed})

        @rule(c=I, j=I)
        def adopt_copy(self, c, j):
            self._do({'op': 'copy', 'c': c, 'j': j})

        def teardown(self):
            if not self.failed:
                hooks.passed({'ops': list(self.it.log)}, history_info(self.it))

    return CircuitHistories


SPEC = {
    'id': 'C02',
    'rule': ('Hypothesis rule-based state machine over a pool of 3 circuits; 19 rules cover every public mutator (add/emplace '
             'gate of any type, add_inputs, remove_gate, rename_gate, mark_as_output/set_outputs, set_inputs/order_inputs/'
             'order_outputs, replace_inputs, connect_circuit in both directions with internal / repeated connectors, '
             'connect_left/right/inputs, extend_circuit, add_circuit (other = deep copy of a pool circuit or a fresh netlist, '
             'with names / prefixes), replace_subcircuit (generated cone + independently synthesised replacement), make_block, '
             'make_block_from_slice, delete_block, remove_block, into_bench, copy) with a share of deliberately invalid '
             'arguments. Each call runs on a deep copy that replaces the target only if the call returned normally; after '
             'every adopted step the full structural invariant wellformed() (operands/outputs exist, users multiset, inputs '
             'list, acyclic, both top-sorts, block labels, copy equal + independent) and agreement of evaluate / '
             'evaluate_full_circuit with the reference run. Non-trivial: history with >=3 adopted mutations incl. one of '
             'right-connect / rename / replace_subcircuit / into_bench / remove_gate / remove_block; distinct by operation log.'
             ' Added during the build: refused calls of several kinds per mutator (repeated / non-input / extra labels for set_inputs, repeated replaced-side connector pairs, several inputs per replace_inputs list in an order of their own), a rule for replacements whose outputs feed each other, a rule for a connector pair listed twice among all gates, a rule that attaches a circuit under a name, drops the block and attaches it under that name again, a rule that builds and removes a block one of whose members is a circuit output the block does not declare, a copy.copy taken just before every third call that has to stay as it was, and the other circuits of the pool compared around every call.'),
    'assumptions': ['non-CirboError exceptions of a call are counted, not judged (the statement is conditional on normal return)'],
    'subs': [Sub('histories', None, check_history, {'quick': 3200, 'thorough': 192000}, stateful=make_machine)],
    'required_classes': {'histories': ['k:connect_right_like', 'k:connect_left_like', 'k:rename_gate', 'k:replace_subcircuit',
                                       'k:into_bench', 'k:remove_gate', 'k:remove_block', 'k:make_block', 'k:copy',
                                       'k:replace_inputs', 'had_rejected_call']},
}
