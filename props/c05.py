"""C05 - the circuit-to-CNF reduction is exact."""

from __future__ import annotations

import collections

from hypothesis import strategies as st

from vlib import build, gen, refsem, sat
from vlib.env import cirbo_core
from vlib.runner import Sub, Violation

LIMITS = {'quick': dict(max_inputs=5, max_gates=16), 'thorough': dict(max_inputs=6, max_gates=24)}


LONG_TYPES = ['NOT', 'IFF', 'AND', 'OR', 'XOR', 'NXOR', 'NAND', 'NOR', 'GEQ', 'LT', 'LIFF', 'RNOT']


def long_netlist(n_in, length, seed, input_rate=0.5):
    """Few inputs, a long body: every gate reads its predecessor, many also an input (often, seldom or only at the two ends) or a much earlier gate, and the
    top gate reads the first input again (pure function of the three numbers)."""
    import random
    rs = random.Random(seed)
    inputs = [f'x{i}' for i in range(n_in)]
    gates = [[x, 'INPUT', []] for x in inputs]
    prev = inputs[-1]
    for i in range(length):
        t = rs.choice(LONG_TYPES)
        if t in ('NOT', 'IFF'):
            ops = [prev]
        else:
            far = rs.choice(inputs) if rs.random() < input_rate or i < 3 else f'g{rs.randrange(0, i)}'
            ops = [prev, far] if rs.random() < 0.5 else [far, prev]
        gates.append([f'g{i}', t, ops])
        prev = f'g{i}'
    gates.append(['top', rs.choice(['AND', 'XOR', 'OR', 'NOR']), [prev, inputs[0]]])
    outs = ['top'] + ([f'g{rs.randrange(0, length)}'] if rs.random() < 0.3 else [])
    return {'inputs': inputs, 'gates': gates, 'outputs': outs, 'style': 'plain'}


@st.composite
def cases(draw, tier):
    lim = LIMITS[tier]
    if draw(st.integers(0, 15 if tier == 'quick' else 63)) == 0:  # (about a second each)
        nl = long_netlist(draw(st.integers(1, 3)), draw(st.sampled_from([125, 130, 160, 200, 260, 320])), draw(st.integers(0, 2 ** 32)),
                          draw(st.sampled_from([0.5, 0.05, 0.0, 0.0])))
        return {'nl': nl, 'route': draw(gen.routes(nl)), 'sel': draw(st.sampled_from([None, None, [0]])), 'taut': False}
    nl = draw(gen.netlists(min_inputs=0, max_inputs=lim['max_inputs'], max_gates=lim['max_gates'],
                           max_arity=5, wide_arity=13, styles=('plain', 'digits', 'mixed'), max_outputs=4, const_operands=(0, 0, 2, 1),
                           dup_rate=draw(st.sampled_from([0, 2, 3, 4]))))
    wrap = draw(st.integers(0, 3)) == 0 and len(nl['gates']) > 0
    if wrap:
        # tautological top gate over the (deep) cone of some gate: every row is satisfiable and every
        # encoded gate is exercised on every row
        target = nl['outputs'][0] if nl['outputs'] else nl['gates'][-1][0]
        kind = draw(st.sampled_from(['OR_NOT', 'GEQ_SELF', 'NXOR_SELF', 'NAND_NOT']))
        nl = dict(nl)
        nl['gates'] = list(nl['gates'])
        if kind == 'OR_NOT':
            nl['gates'] += [['taut_n', 'NOT', [target]], ['taut_top', 'OR', [target, 'taut_n']]]
        elif kind == 'NAND_NOT':
            nl['gates'] += [['taut_n', 'NOT', [target]], ['taut_top', 'NAND', [target, 'taut_n', target]]]
        elif kind == 'GEQ_SELF':
            nl['gates'] += [['taut_top', 'GEQ', [target, target]]]
        else:
            nl['gates'] += [['taut_top', 'NXOR', [target, target]]]
        nl['outputs'] = ['taut_top']
    route = draw(gen.routes(nl))
    m = len(nl['outputs'])
    mode = draw(st.sampled_from(['none', 'none', 'sub', 'empty']))
    if mode == 'none' or m == 0:
        sel = None if mode != 'empty' else []
    elif mode == 'empty':
        sel = []
    else:
        sel = [draw(st.integers(0, m - 1)) for _ in range(draw(st.integers(1, m + 1)))]
    return {'nl': nl, 'route': route, 'sel': sel, 'taut': wrap}


def check_tseytin(case):
    cirbo_core()
    from cirbo.sat import is_circuit_satisfiable
    from cirbo.sat.cnf import Cnf, tseytin_transformation

    nl = case['nl']
    c = build.build(nl, case['route'])
    sel = case['sel']
    if sel is None:
        cnf_obj = tseytin_transformation(c)
        sel_idx = list(range(len(nl['outputs'])))
    else:
        cnf_obj = tseytin_transformation(c, list(sel))
        sel_idx = list(sel)
    clauses = [list(x) for x in cnf_obj.get_raw()]
    # the formula object is the caller's: it goes on to add clauses of its own to it (here: pinning the first inputs
    # through the public add_clause) - which must stay that object's business
    try:
        for v in range(1, min(len(nl['inputs']), 3) + 1):
            cnf_obj.add_clause([-v])
        if not nl['inputs']:
            cnf_obj.add_clause([1, -1])
    except Exception:  # noqa
        pass
    n = len(nl['inputs'])
    t = refsem.tables(nl)
    typ = {g[0]: g[1] for g in nl['gates']}
    sel_labels = [nl['outputs'][i] for i in sel_idx]
    # the gates whose values matter: reached from the selected outputs without going through a constant (a constant ignores
    # its operands; whether their cones are encoded as well is the library's business)
    ops_of = {g[0]: g[2] for g in nl['gates']}
    seen, stack = set(), list(sel_labels)
    while stack:
        x = stack.pop()
        if x in seen:
            continue
        seen.add(x)
        if typ[x] not in refsem.CONST:
            stack.extend(ops_of[x])
    cone = [l for l in seen if typ[l] != 'INPUT']
    gate_vars = sorted({abs(l) for cl in clauses for l in cl if abs(l) > n})
    if any(l == 0 for cl in clauses for l in cl):
        raise Violation('bad_literal', 'literal 0 in CNF')
    W = 1 << n
    want = (1 << W) - 1
    solve = sat.solve_fast if len(nl['gates']) >= 100 else sat.solve
    for o in sel_labels:
        want &= t[o]
    sat_rows = []
    columns = {v: [] for v in gate_vars}
    n_sat = n_unsat = 0
    for j in range(W):
        assum = [(i + 1) if (j >> (n - 1 - i)) & 1 else -(i + 1) for i in range(n)]
        model = solve(clauses, assum)
        if model is not None and not sat.satisfies(clauses, model):
            raise RuntimeError('oracle solver returned a model that falsifies a clause')
        exp = bool((want >> j) & 1)
        if (model is not None) != exp:
            raise Violation('equisat',
                            f'row {j:0{n}b} (inputs big-endian): CNF is {"SAT" if model else "UNSAT"} but selected '
                            f'outputs {sel_labels} are {"all True" if exp else "not all True"}')
        if model is None:
            n_unsat += 1
            continue
        n_sat += 1
        sat_rows.append(j)
        # uniqueness of the extension
        block = [(-v if model.get(v, False) else v) for v in gate_vars]
        if gate_vars and solve(clauses + [block], assum) is not None:
            raise Violation('extension_not_unique', f'row {j:0{n}b}: a second satisfying extension exists')
        for v in gate_vars:
            columns[v].append(model.get(v, False))
    # every encoded gate gets its evaluated value (allocation-order agnostic)
    got = collections.Counter(tuple(col) for col in columns.values())
    exp_cols = collections.Counter(tuple(bool((t[l] >> j) & 1) for j in sat_rows) for l in cone)
    # (auxiliary variables would be tolerated: every cone gate must have a variable carrying its value column)
    if sat_rows and (exp_cols - got):
        raise Violation('gate_values', f'value columns of CNF gate variables {dict(got)} do not cover the evaluated cone gates {dict(exp_cols)}')
    # Cnf.from_circuit == tseytin_transformation(c)
    full = [list(x) for x in tseytin_transformation(c).get_raw()]
    if [list(x) for x in Cnf.from_circuit(c).get_raw()] != full:
        raise Violation('from_circuit', 'Cnf.from_circuit differs from tseytin_transformation')
    # circuit satisfiability query
    res = is_circuit_satisfiable(c)
    allw = (1 << W) - 1
    for o in nl['outputs']:
        allw &= t[o]
    if bool(res.answer) != (allw != 0):
        raise Violation('is_circuit_satisfiable', f'answer {res.answer} but {"some" if allw else "no"} row makes all outputs True')
    if res.answer:
        if res.model is None:
            raise Violation('is_circuit_satisfiable', 'answer True without a model')
        mv = {abs(l): l > 0 for l in res.model}
        if not all(any(mv.get(abs(l), None) == (l > 0) for l in cl) for cl in full):
            raise Violation('model_not_satisfying', f'model {res.model} falsifies a clause of the CNF')
        for default in (False, True):
            j = 0
            for i in range(n):
                j = (j << 1) | (1 if mv.get(i + 1, default) else 0)
            if not (allw >> j) & 1:
                raise Violation('model_projection', f'model {res.model} projects to row {j:0{n}b} which does not make all outputs True')
    elif res.model is not None:
        raise Violation('is_circuit_satisfiable', 'answer False with a model')
    cls = gen.classify(nl)
    if case['taut']:
        cls.add('tautological_top')
    cls.add('sel:' + ('none' if sel is None else 'empty' if not sel else 'sub'))
    if any(ty in ('XOR', 'NXOR') and len(ops) >= 3 for _, ty, ops in nl['gates']):
        cls.add('nary_xor')
    if len(nl['gates']) >= 128:
        cls.add('gates>=128')
    nt = len(clauses) > len(sel_idx) and n_sat > 0 and n_unsat > 0
    return {'nt': nt, 'cls': cls, 'key': [nl['inputs'], nl['gates'], nl['outputs'], sel],
            'count': {'rows_sat': n_sat, 'rows_unsat': n_unsat},
            'sample': {'bench': build.bench_text(nl), 'outputs_arg': sel, 'cnf': clauses[:12]}}


SPEC = {
    'id': 'C05',
    'rule': ('Hypothesis netlists over all 19 types (arity 2-5, 0-6 inputs, <=24 gates) x output selection '
             '(None / sub-list with repeats / empty) x ALL 2^n input rows; oracle = own complete DPLL on CNF + '
             'input units vs reference truth table: equisatisfiability per row, uniqueness of the extension, '
             'multiset of gate-variable value columns == evaluated cone gates, variable count, '
             'Cnf.from_circuit == tseytin_transformation, is_circuit_satisfiable answer and model. '
             'Non-trivial: >=1 gate clause and both a satisfiable and an unsatisfiable row; distinct by '
             'hash of netlist + selection.'
             " Added during the build: long bodies of 125-320 gates over 1-3 inputs whose top gate reads the first input again, n-ary gates with up to 13 operands, near-duplicate gates incl. the same ordered operand pair under another type, and every returned formula is written to through add_clause (formulas are the caller's; zero-clause formulas must not share storage)."),
    'assumptions': ['own DPLL (vlib/sat.py) decides CNF + fixed inputs (z3 on the long bodies, whose models are re-checked against the clauses); z3-backed pysat stand-in used only for is_circuit_satisfiable, its models are re-checked'],
    'subs': [Sub('tseytin', cases, check_tseytin, {'quick': 2500, 'thorough': 200000})],
    'required_classes': {'tseytin': ['nary_xor', 'tautological_top', 'sel:sub', 'sel:empty', 'LR_gate',
                                     'constant', 'cmp_gate', 'dup_operand', 'nary>=9', 'gates>=128']},
}
