"""C20 - traversals visit exactly the reachable gates in a valid order."""

from __future__ import annotations

import collections

from hypothesis import strategies as st

from vlib import build, gen, refsem
from vlib.env import cirbo_core
from vlib.runner import Sub, Violation


def deep_netlist(d, flip):
    """A chain g_i = AND(a, g_{i-1}) (operands in either order) of d levels with a tap in the middle and one unreachable gate."""
    gates = [['a', 'INPUT', []], ['b', 'INPUT', []], ['g0', 'OR', ['a', 'b']]]
    for i in range(1, d + 1):
        gates.append([f'g{i}', 'AND', ['a', f'g{i - 1}'] if (i + flip) % 3 else [f'g{i - 1}', 'a']])
    gates += [['s', 'NOT', [f'g{d // 2}']], ['top', 'AND', ['s', f'g{d}']], ['lonely', 'NOT', ['b']]]
    return {'inputs': ['a', 'b'], 'gates': gates, 'outputs': ['top'], 'style': 'plain'}


@st.composite
def cases(draw, tier):
    big = tier == 'thorough'
    if draw(st.integers(0, 39)) == 0:
        # deep circuits: the traversal's work list grows to hundreds or thousands of labels
        nl = deep_netlist(draw(st.sampled_from([300, 520, 700, 1100, 1500, 3000] + ([6000] if big else []))), draw(st.integers(0, 2)))
        return {'nl': nl, 'route': draw(gen.routes(nl)), 'start': draw(st.sampled_from([None, None, [len(nl['gates']) - 2]])),
                'start_as': draw(st.sampled_from(['list', 'tuple', 'live'])), 'mode': draw(st.sampled_from(['DFS', 'DFS', 'BFS'])),
                'inverse': draw(st.booleans()), 'hooks': draw(st.integers(0, 31)), 'topsort_unvisited': draw(st.booleans()),
                'peek': draw(st.sampled_from(['none', 'neigh']))}
    nl = draw(gen.netlists(min_inputs=0, max_inputs=5, max_gates=30 if big else 18, max_arity=4,
                           styles=('plain', 'digits', 'mixed'), max_outputs=4, recency_bias=draw(st.booleans())))
    n_all = len(nl['gates'])
    smode = draw(st.sampled_from(['default', 'default', 'list', 'list', 'empty']))
    if smode == 'list' and n_all:
        start = [draw(st.integers(0, n_all - 1)) for _ in range(draw(st.integers(1, 4)))]
    elif smode == 'empty':
        start = []
    else:
        start = None
    return {'nl': nl, 'route': draw(gen.routes(nl)), 'start': start,
            # the start set is any sequence of labels: a list, a tuple, the circuit's own outputs / inputs list
            'start_as': draw(st.sampled_from(['list', 'list', 'tuple', 'live'])),
            'mode': draw(st.sampled_from(['DFS', 'BFS'])), 'inverse': draw(st.booleans()),
            'hooks': draw(st.integers(0, 31)), 'topsort_unvisited': draw(st.booleans()),
            # what the hooks read from the state mapping they are handed: own entry only, neighbours, or every gate
            'peek': draw(st.sampled_from(['none', 'neigh', 'neigh', 'all']))}


def check_traverse(case):
    core = cirbo_core()
    TS = core.circuit_mod.TraverseState
    nl = case['nl']
    c = build.build(nl, case['route'])
    labs = [g[0] for g in nl['gates']]
    ops = {g[0]: list(g[2]) for g in nl['gates']}
    users = {l: [] for l in labs}
    for l in labs:
        for o in ops[l]:
            users[o].append(l)
    inverse = case['inverse']
    children = users if inverse else ops

    # top_sort in both directions
    for inv in (True, False):
        seq = [g.label for g in c.top_sort(inverse=inv)]
        if collections.Counter(seq) != collections.Counter(labs):
            raise Violation('top_sort_cover', f'inverse={inv}: yielded {seq} for gates {labs}')
        pos = {l: i for i, l in enumerate(seq)}
        for l in labs:
            for o in ops[l]:
                if (pos[o] > pos[l]) if inv else (pos[o] < pos[l]):
                    raise Violation('top_sort_order', f'inverse={inv}: {l} vs operand {o} in {seq}')

    start = None if case['start'] is None else [labs[i] for i in case['start']]
    roots = start if start is not None else (list(nl['inputs']) if inverse else list(nl['outputs']))
    reach: set[str] = set()
    stack = list(roots)
    while stack:
        x = stack.pop()
        if x in reach:
            continue
        reach.add(x)
        stack.extend(children[x])

    events: list[tuple] = []
    extra: dict = {}
    hooks = case['hooks']
    kw = {}
    peek_mode = case.get('peek', 'none')

    def rec(kind):
        def hook(g, s):
            # reading the handed mapping (also for gates the traversal has not reached) is what hooks are for
            if peek_mode == 'neigh':
                for x in list(g.operands) + list(c.get_gate_users(g.label)):
                    s[x]
            elif peek_mode == 'all':
                for x in labs:
                    s[x]
            events.append((kind, g.label, s[g.label]))
        return hook

    if hooks & 1:
        kw['on_enter_hook'] = rec('enter')
    if hooks & 2:
        kw['on_discover_hook'] = rec('discover')
    if hooks & 4 and case['mode'] == 'DFS':
        kw['on_exit_hook'] = rec('exit')
    if hooks & 8:
        kw['unvisited_hook'] = rec('unvisited')
    if hooks & 16:
        kw['on_traversal_end_hook'] = lambda s: events.append(('end', dict(s)))
    fn = c.dfs if case['mode'] == 'DFS' else c.bfs
    given = start
    how = case.get('start_as', 'list')
    if start is not None and how == 'tuple':
        given = tuple(start)
    elif start is not None and how == 'live' and start == (list(c.inputs) if inverse else list(c.outputs)):
        given = c.inputs if inverse else c.outputs
    it = fn(given, inverse=inverse, topsort_unvisited=case['topsort_unvisited'], **kw)
    yielded = []
    for g in it:
        yielded.append(g.label)
        events.append(('yield', g.label))
    desc = f'{case["mode"]} inverse={inverse} start={start}'
    if not labs:
        if yielded or events:
            raise Violation('empty_circuit', 'empty circuit yielded something')
        return {'nt': False, 'cls': {'empty'}}
    if collections.Counter(yielded) != collections.Counter(reach):
        raise Violation('reachable_set', f'{desc}: yielded {yielded}, reachable {sorted(reach)}')
    ev_of = lambda kind: [e for e in events if e[0] == kind]
    if hooks & 1:
        ent = [e[1] for e in ev_of('enter')]
        if ent != yielded:
            raise Violation('enter_order', f'{desc}: enter hooks {ent} vs yield order {yielded}')
        # each enter immediately precedes... at least precedes its yield
        idx = {}
        for i, e in enumerate(events):
            if e[0] in ('enter', 'yield'):
                idx.setdefault((e[0], e[1]), i)
        for l in yielded:
            if idx[('enter', l)] > idx[('yield', l)]:
                raise Violation('enter_order', f'{desc}: {l} yielded before its enter hook')
    if 'on_exit_hook' in kw:
        ex = [e[1] for e in ev_of('exit')]
        if collections.Counter(ex) != collections.Counter(reach):
            raise Violation('exit_set', f'{desc}: exit hooks {ex}, reached {sorted(reach)}')
        epos = {l: i for i, l in enumerate(ex)}
        for g in reach:
            for ch in children[g]:
                if not epos[ch] <= epos[g] or (ch != g and epos[ch] == epos[g]):
                    raise Violation('post_order', f'{desc}: exit({ch}) does not precede exit({g}); exits {ex}')
        # every enter (= yield) precedes the exit of the same gate
        seen_y = set()
        for e in events:
            if e[0] == 'yield':
                seen_y.add(e[1])
            elif e[0] == 'exit' and e[1] not in seen_y:
                raise Violation('exit_before_enter', f'{desc}: exit({e[1]}) before the gate was entered')
        # (proper nesting of enter/exit intervals and the discover / end-hook protocol are not part of the statement:
        # they are only counted)
        st_, nested = [], True
        for e in events:
            if e[0] == 'yield':
                st_.append(e[1])
            elif e[0] == 'exit':
                if not st_ or st_[-1] != e[1]:
                    nested = False
                    break
                st_.pop()
        extra['properly_nested' if nested else 'not_nested'] = 1
    if case['mode'] == 'BFS' and ev_of('exit'):
        raise Violation('bfs_exit', 'BFS called an exit hook')
    if hooks & 2:
        disc = collections.Counter(e[1] for e in ev_of('discover'))
        exp = collections.Counter(ch for g in reach for ch in children[g])
        extra['discover_once_per_edge' if disc == exp else 'discover_other_protocol'] = 1
    if hooks & 8:
        unv = [e[1] for e in ev_of('unvisited')]
        if collections.Counter(unv) != collections.Counter(set(labs) - reach):
            raise Violation('unvisited_set', f'{desc}: unvisited hook got {unv}, expected {sorted(set(labs) - reach)}')
        if case['topsort_unvisited']:
            upos = {l: i for i, l in enumerate(unv)}
            for l in unv:
                for o in ops[l]:
                    if o in upos and upos[o] > upos[l]:
                        raise Violation('unvisited_order', f'{desc}: {l} reported before its operand {o}: {unv}')
        # unvisited hooks come after every yield
        last_y = max([i for i, e in enumerate(events) if e[0] == 'yield'], default=-1)
        first_u = min([i for i, e in enumerate(events) if e[0] == 'unvisited'], default=len(events))
        if first_u < last_y:
            raise Violation('unvisited_order', f'{desc}: unvisited hook before the traversal finished')
    if hooks & 16:
        ends = ev_of('end')
        ok_end = len(ends) == 1 and events[-1][0] == 'end' and \
            {l for l, s_ in ends[0][1].items() if s_ == TS.VISITED} == reach
        extra['end_hook_once_last_visited=reached' if ok_end else 'end_hook_other_protocol'] = 1
    cls = {case['mode'], 'inverse' if inverse else 'forward',
           'start:' + ('default' if start is None else 'empty' if not start else 'list')}
    if start and how == 'tuple':
        cls.add('start:tuple')

    if start and len(set(start)) < len(start):
        cls.add('start_repeats')
    if any(len(set(o)) < len(o) for o in ops.values()):
        cls.add('dup_operand')
    shared = any(len(set(u)) >= 2 for u in users.values())
    if shared:
        cls.add('sharing')
    if reach and len(reach) < len(labs):
        cls.add('strict_subset')
    cls.add(f'hooks={bin(hooks).count("1")}')
    if len(labs) > 1030:
        cls.add('gates>1030')
    if hooks & 15:
        cls.add('peek:' + peek_mode)
    return {'nt': shared and 0 < len(reach) < len(labs), 'cls': cls, 'count': extra,
            'sample': {'bench': build.bench_text(nl), 'mode': case['mode'], 'inverse': inverse,
                       'start': start, 'yielded': yielded}}


# ---------------------------------------------------------------------------


@st.composite
def cyclic_cases(draw, tier):
    nl = draw(gen.netlists(min_inputs=1, max_inputs=4, min_gates=1, max_gates=14, max_arity=3,
                           styles=('plain', 'digits'), max_outputs=3))
    idxs = [i for i, g in enumerate(nl['gates']) if g[2]]
    rew = []
    if idxs:
        for _ in range(draw(st.integers(0, 3))):
            i = idxs[draw(st.integers(0, len(idxs) - 1))]
            p = draw(st.integers(0, len(nl['gates'][i][2]) - 1))
            j = draw(st.integers(i, len(nl['gates']) - 1))
            rew.append([i, p, j])
    return {'nl': nl, 'rewires': rew, 'keys': [draw(st.integers(0, 5)) for _ in nl['gates']]}


def _has_reachable_cycle(gates: dict, roots) -> bool:
    state: dict[str, int] = {}
    for r in roots:
        if r in state:
            continue
        stack = [(r, 0)]
        state[r] = 1
        while stack:
            lab, i = stack[-1]
            o = gates[lab]
            if i < len(o):
                stack[-1] = (lab, i + 1)
                ch = o[i]
                s = state.get(ch)
                if s is None:
                    state[ch] = 1
                    stack.append((ch, 0))
                elif s == 1:
                    return True
            else:
                state[lab] = 2
                stack.pop()
    return False


def check_cycles(case):
    core = cirbo_core()
    from cirbo.core.circuit.validation import check_circuit_has_no_cycles

    nl = {'inputs': list(case['nl']['inputs']), 'gates': [[g[0], g[1], list(g[2])] for g in case['nl']['gates']],
          'outputs': list(case['nl']['outputs'])}
    for i, p, j in case['rewires']:
        nl['gates'][i][2][p] = nl['gates'][j][0]
    c = core.Circuit.from_bench_string(build.bench_text(nl, case['keys']))
    gates = {g[0]: g[2] for g in nl['gates']}
    exp = _has_reachable_cycle(gates, nl['outputs'])
    anywhere = _has_reachable_cycle(gates, list(gates))
    try:
        check_circuit_has_no_cycles(c)
        raised = False
    except core.cexc.CircuitValidationError:
        raised = True
    if raised != exp:
        raise Violation('cycle_check', f'check_circuit_has_no_cycles {"raised" if raised else "passed"} but a cycle is '
                                       f'{"" if exp else "not "}reachable from the outputs: {build.bench_text(nl)}')
    cls = {'cycle_reachable' if exp else ('cycle_unreachable' if anywhere else 'acyclic')}
    if any(i == j for i, _, j in case['rewires']) and anywhere:
        cls.add('self_loop_candidate')
    return {'nt': anywhere, 'cls': cls, 'sample': {'bench': build.bench_text(nl), 'raised': raised}}


SPEC = {
    'id': 'C20',
    'rule': ('Hypothesis DAG netlists (sharing, duplicated operands, disconnected parts, dead gates, <=30 gates) x '
             'start set (default / empty / label list with repeats) x DFS|BFS x direction x all 32 hook subsets (hooks reading their own / neighbouring / all entries of the state mapping) x '
             'topsort_unvisited; oracle: predicates over the recorded event trace against own reachability '
             '(yield set = reachable each once, enter=yield order, every enter before its exit, exit set, post-order over every edge, '
             'unvisited complement and its topological order; nesting / discover / end-hook protocol are only counted) plus top_sort order in both '
             'directions. Cyclic netlists (operand rewired to itself/a later gate, parsed from bench text): cycle '
             'check raises iff own DFS finds a cycle reachable from the outputs. Non-trivial: some gate has >=2 '
             'distinct users and the start set reaches a strict non-empty subset; for cycles: a cycle exists.'
             " Added during the build: deep chains of 300-3000 (6000) levels, hooks that read their own / neighbouring / all entries of the state mapping, tuple and live start sets, circuits looked at in the middle of their construction (route 'observe')."),
    'assumptions': ['own reachability / cycle detection in props/c20.py'],
    'subs': [Sub('traverse', cases, check_traverse, {'quick': 3000, 'thorough': 250000}),
             Sub('cycles', cyclic_cases, check_cycles, {'quick': 1500, 'thorough': 100000})],
    'required_classes': {'traverse': ['gates>1030', 'DFS', 'BFS', 'inverse', 'forward', 'start:list', 'start:empty', 'start:tuple',
                                      'start_repeats', 'dup_operand', 'strict_subset'],
                         'cycles': ['cycle_reachable', 'cycle_unreachable', 'acyclic']},
}
