"""C09 - subtraction, division, sqrt, comparison and gadget generators are exact."""

from __future__ import annotations

import math

from hypothesis import strategies as st

from props import arith
from vlib import build, refsem, wellformed
from vlib.env import cirbo_core, UuidStream
from vlib.runner import Sub, Violation

KINDS = ['sub', 'sub_cmp', 'div_mod', 'sqrt', 'equal', 'plus_one', 'ite', 'pairwise_xor', 'pairwise_ite']


@st.composite
def cases(draw, tier, force_alias=False):
    big = tier == 'thorough'
    kind = draw(st.sampled_from(KINDS if not force_alias else [k for k in KINDS if k != 'ite']))
    form = draw(st.sampled_from(['generate', 'add', 'add'])) if not force_alias else 'add'
    case = {'kind': kind, 'form': form, 'be': draw(st.booleans()), 'uuid_seed': draw(st.integers(0, 2 ** 20)),
            'add_outputs': draw(st.booleans()), 'given_labels': draw(st.booleans())}
    wmax = {'sub': 7, 'sub_cmp': 6, 'div_mod': 6 if not big else 7, 'sqrt': 12, 'equal': 8, 'plus_one': 8,
            'ite': 1, 'pairwise_xor': 5, 'pairwise_ite': 4}[kind]
    if form == 'add' and draw(st.integers(0, 2)) == 0:
        # operands taken from a host circuit do not enlarge the table, so long numbers are affordable there
        wmax = {'sub': 16, 'sub_cmp': 16, 'div_mod': 10, 'sqrt': 16, 'equal': 16, 'plus_one': 16,
                'ite': 1, 'pairwise_xor': 12, 'pairwise_ite': 12}[kind]
    case['n'] = draw(st.integers(1, wmax))
    case['m'] = draw(st.integers(1, wmax if kind != 'plus_one' else 10))
    long_ = form == 'add' and kind in ('sub', 'sub_cmp', 'plus_one', 'equal', 'pairwise_xor') and draw(st.integers(0, 9)) == 0
    if long_:
        # numbers of 33-70 bits over host gates (the table stays that of the host): machine words and mantissas end here
        case['n'] = draw(st.sampled_from([33, 48, 53, 63, 64, 65, 70]))
        case['m'] = case['n'] if kind != 'plus_one' else draw(st.sampled_from([case['n'], case['n'] + 1]))
        if kind == 'sub':
            case['m'] = draw(st.sampled_from([case['n'], case['n'] - 1, 1, 32]))
    if kind == 'equal':
        case['num'] = draw(st.integers(0, 2 ** (case['n'] + 1)))
    if kind == 'div_mod':
        case['mismatch'] = draw(st.integers(0, 9)) == 0
    if kind in ('pairwise_xor', 'pairwise_ite'):
        case['mismatch'] = draw(st.integers(0, 9)) == 0
    if form == 'add':
        case['host'] = draw(arith.hosts(min_inputs=1, max_inputs=6, max_gates=8))
        case['host_route'] = draw(arith.gen.routes(case['host']))
        case['p1'] = arith.operand_picks(draw, 72 if long_ else 16, allow_repeat=kind != 'plus_one' or long_)
        case['p2'] = arith.operand_picks(draw, 72 if long_ else 16, allow_repeat=True)
        case['p3'] = arith.operand_picks(draw, 16, allow_repeat=True)
        # sometimes the first operand list IS the circuit's own live inputs / outputs list (callers write
        # add_x(c, c.outputs, ...)), which the gadget may be growing or reordering while it reads it
        case['hand'] = draw(st.sampled_from(arith.HAND_STYLES))
        case['alias'] = draw(st.sampled_from([None, None, None, 'outputs', 'outputs', 'inputs'] if not force_alias
                                             else ['outputs', 'outputs', 'inputs']))
        if kind == 'equal' and not force_alias and draw(st.integers(0, 3)) == 0:
            # a number wider than a double's mantissa (all its bits one and the same host gate, so that the table stays
            # small) against a constant at the top of the range
            case['n'] = draw(st.sampled_from([49, 50, 53, 63, 64, 65, 80]))
            case['p1'] = {'idx': [draw(st.integers(0, 60))] * case['n'], 'repeat': True}
            case['num'] = 2 ** case['n'] - 1 - draw(st.sampled_from([0, 0, 0, 1, 2 ** (case['n'] - 1)]))
            case['alias'] = None
    return case


def _ints(t, labels_lsb_first, nrows):
    """Row-wise integer value of a number given LSB-first by gate labels."""
    vals = [0] * nrows
    for k, lab in enumerate(labels_lsb_first):
        v = t[lab]
        j = 0
        while v:
            if v & 1:
                vals[j] |= 1 << k
            v >>= 1
            j += 1
    return vals


def _le(labels, be):
    return list(labels)[::-1] if be else list(labels)


def check_arith(case):
    core = cirbo_core()
    from cirbo.synthesis import generation as g
    from cirbo.synthesis.generation import arithmetics as ar
    from cirbo.synthesis.generation.exceptions import BadShapesError

    kind, form, be = case['kind'], case['form'], case['be']
    n, m = case['n'], case['m']
    cls = {kind, form, 'be' if be else 'le'}
    add_outputs = case['add_outputs']
    result_labels = None
    expect_outputs = None
    again = case['uuid_seed'] % 3 == 0  # generators: ask twice, the first result changed by its owner in between
    with UuidStream(case['uuid_seed']):
        if form == 'generate':
            host = None
            if kind == 'sub':
                c = arith.fresh(lambda: ar.generate_sub_two_numbers(n, m, big_endian=be), again)
                a, b = list(c.inputs[:n]), list(c.inputs[n:])
                ret = list(c.outputs)
            elif kind == 'sub_cmp':
                c = core.Circuit.bare_circuit(n + m)
                a, b = list(c.inputs[:n]), list(c.inputs[n:])
                ret = ar.add_subtract_with_compare(c, list(a), list(b), big_endian=be)
            elif kind == 'div_mod':
                c = arith.fresh(lambda: ar.generate_div_mod(n, big_endian=be), again)
                a, b = list(c.inputs[:n]), list(c.inputs[n:])
                ret = (list(c.outputs[:n]), list(c.outputs[n:]))
            elif kind == 'sqrt':
                c = arith.fresh(lambda: ar.generate_sqrt(n, big_endian=be), again)
                a = list(c.inputs)
                ret = list(c.outputs)
            elif kind == 'equal':
                c = arith.fresh(lambda: ar.generate_equal(n, case['num']), again)
                a = list(c.inputs)
                ret = c.outputs[0] if c.outputs else None
            elif kind == 'plus_one':
                c = arith.fresh(lambda: g.generate_plus_one(n, m, big_endian=be), again)
                a = list(c.inputs)
                ret = list(c.outputs)
            elif kind == 'ite':
                c = arith.fresh(lambda: g.generate_if_then_else(), again)
                a = list(c.inputs)
                ret = list(c.outputs)
            elif kind == 'pairwise_xor':
                c = arith.fresh(lambda: g.generate_pairwise_xor(n), again)
                a = list(c.inputs)
                ret = list(c.outputs)
            else:
                c = arith.fresh(lambda: g.generate_pairwise_if_then_else(n), again)
                a = list(c.inputs)
                ret = list(c.outputs)
            res = refsem.from_circuit(c)
            pats, mask = refsem.full_patterns(len(res['inputs']))
            try:
                t = refsem.tables(res, pats, mask)
            except (refsem.ArityError, ValueError, KeyError) as e:
                raise Violation('result_malformed', str(e))
            pr = wellformed.basic_problems(c)
            if pr:
                raise Violation('wellformed', '; '.join(pr[:3]))
            nrows = 1 << len(res['inputs'])
        else:
            host = case['host']
            c = build.build(host, case.get('host_route'))
            before = wellformed.snapshot(c)
            pats, mask = refsem.full_patterns(len(host['inputs']))
            t0 = refsem.tables(host, pats, mask)
            nrows = 1 << len(host['inputs'])
            typ = {g_[0]: g_[1] for g_ in host['gates']}
            p1 = arith.resolve_operands(host, case['p1'])
            p2 = arith.resolve_operands(host, case['p2'])
            p3 = arith.resolve_operands(host, case['p3'])
            if p1 is None:
                p1 = [g_[0] for g_ in host['gates']]
            a, b = p1[:n], p2[:m]
            live = None
            alias = case.get('alias')
            if alias and kind != 'ite':
                cand = c.outputs if alias == 'outputs' else c.inputs
                if 1 <= len(cand) <= 16 and not (kind == 'plus_one' and len(set(cand)) < len(cand)):
                    live = cand
                    a = list(cand)
                    cls.add('operands_alias_' + alias)
            n = len(a)

            def arg_a():
                if live is not None:
                    return live
                # the arithmetics/* functions declare tp.Iterable operands, the gadgets of generation.py declare lists
                fn_decl = {'sub': ar.add_sub_two_numbers, 'sub_cmp': ar.add_subtract_with_compare, 'div_mod': ar.add_div_mod,
                           'sqrt': ar.add_sqrt, 'equal': ar.add_equal}.get(kind)
                return arith.hand(a, case.get('hand', 'list'), fn_decl) if fn_decl is not None else list(a)

            kw_out = {}
            if kind in ('plus_one', 'ite', 'pairwise_xor', 'pairwise_ite'):
                kw_out['add_outputs'] = add_outputs
            if kind == 'sub':
                ret = ar.add_sub_two_numbers(c, arg_a(), arith.hand(b, case.get('hand', 'list'), ar.add_sub_two_numbers), big_endian=be)
            elif kind == 'sub_cmp':
                ret = ar.add_subtract_with_compare(c, arg_a(), arith.hand(b, case.get('hand', 'list'), ar.add_subtract_with_compare), big_endian=be)
            elif kind == 'div_mod':
                b = p2[:n] if not case.get('mismatch') else p2[:n + 1]
                try:
                    ret = ar.add_div_mod(c, arg_a(), arith.hand(b, case.get('hand', 'list'), ar.add_div_mod), big_endian=be)
                except BadShapesError:
                    if len(b) != len(a):
                        return {'nt': False, 'cls': cls | {'shape_mismatch_rejected'}}
                    raise
                if len(b) != len(a):
                    raise Violation('shape_mismatch_accepted', f'add_div_mod with widths {len(a)} and {len(b)} did not raise')
            elif kind == 'sqrt':
                ret = ar.add_sqrt(c, arg_a(), big_endian=be)
            elif kind == 'equal':
                ret = ar.add_equal(c, arg_a(), case['num'])
            elif kind == 'plus_one':
                if case['given_labels']:
                    result_labels = [f'res_{i}' for i in range(m)]
                    kw_out['result_labels'] = list(result_labels)
                ret = g.add_plus_one(c, arg_a(), big_endian=be, **kw_out)
                if not case['given_labels']:
                    m = n + 1
                expect_outputs = list(ret)
            elif kind == 'ite':
                a = [p1[0], p2[0], p3[0]]
                if case['given_labels']:
                    kw_out['result_label'] = 'res_ite'
                ret = [g.add_if_then_else(c, a[0], a[1], a[2], **kw_out)]
                expect_outputs = list(ret)
            elif kind == 'pairwise_xor':
                xs, ys = a, p2[:n] if not case.get('mismatch') else p2[:n + 1]
                if case['given_labels']:
                    kw_out['result_labels'] = [f'res_{i}' for i in range(len(xs))]
                try:
                    ret = g.add_pairwise_xor(c, arg_a(), list(ys), **kw_out)
                except BadShapesError:
                    if len(xs) != len(ys):
                        return {'nt': False, 'cls': cls | {'shape_mismatch_rejected'}}
                    raise
                if len(xs) != len(ys):
                    raise Violation('shape_mismatch_accepted', 'add_pairwise_xor with different lengths did not raise')
                a = xs + ys
                expect_outputs = list(ret)
            else:
                i_, t_, e_ = a, p2[:n], p3[:n] if not case.get('mismatch') else p3[:n + 1]
                if case['given_labels']:
                    kw_out['result_labels'] = [f'res_{i}' for i in range(len(i_))]
                try:
                    ret = g.add_pairwise_if_then_else(c, arg_a(), list(t_), list(e_), **kw_out)
                except BadShapesError:
                    if not (len(i_) == len(t_) == len(e_)):
                        return {'nt': False, 'cls': cls | {'shape_mismatch_rejected'}}
                    raise
                if not (len(i_) == len(t_) == len(e_)):
                    raise Violation('shape_mismatch_accepted', 'add_pairwise_if_then_else with different lengths did not raise')
                a = i_ + t_ + e_
                expect_outputs = list(ret)
            # host discipline
            grow = expect_outputs if (expect_outputs is not None and add_outputs) else None
            res_nl = refsem.from_circuit(c)
            if kind == 'plus_one':
                # add_plus_one documents that it (re)orders the operand inputs first: order may change, the set not
                if sorted(res_nl['inputs']) != sorted(host['inputs']):
                    raise Violation('host_inputs_changed', f'inputs {host["inputs"]} -> {res_nl["inputs"]}')
                host_cmp = dict(host, inputs=res_nl['inputs'])
                pats2 = [pats[host['inputs'].index(x)] for x in res_nl['inputs']]
                res, t, fresh = arith.host_discipline(host_cmp, before, c, t0, pats2, mask, outputs_may_grow=True)
            else:
                res, t, fresh = arith.host_discipline(host, before, c, t0, pats, mask, outputs_may_grow=True)
            old_out = host['outputs']
            new_out = res['outputs']
            if grow is None:
                if new_out != old_out and sorted(new_out) != sorted(old_out):
                    raise Violation('outputs_marked_unasked', f'add_outputs={add_outputs if kind in ("plus_one", "ite", "pairwise_xor", "pairwise_ite") else "n/a"}: outputs {old_out} -> {new_out}')
                if new_out != old_out:
                    raise Violation('host_outputs_reordered', f'outputs {old_out} -> {new_out}')
            else:
                rest = list(new_out)
                for lab in grow:
                    if lab not in rest:
                        raise Violation('outputs_not_marked', f'result {lab} not among outputs {new_out}')
                    rest.remove(lab)
                if rest != old_out:
                    raise Violation('host_outputs_changed', f'outputs {old_out} + results {grow} became {new_out}')
            if result_labels is not None and list(ret) != result_labels:
                raise Violation('result_labels_ignored', f'returned {ret}, requested {result_labels}')
            if any(typ[x] != 'INPUT' for x in a if x in typ):
                cls.add('internal_operands')
            cls.add('add_outputs' if add_outputs else 'no_add_outputs')

    # ---- arithmetic oracles (row-wise Python integers)
    def val(labels):
        return _ints(t, _le(labels, be), nrows)

    rows = range(nrows)
    if kind == 'sub':
        A, B, R = val(a), val(b), val(ret)
        if len(ret) != len(a):
            raise Violation('result_length', f'sub: {len(ret)} bits for |a|={len(a)}')
        for j in rows:
            if R[j] != (A[j] - B[j]) % (1 << len(a)):
                raise Violation('wrong_difference', f'{form} sub |a|={len(a)} |b|={len(b)} big_endian={be}: {A[j]}-{B[j]} gave {R[j]}')
    elif kind == 'sub_cmp':
        r, flag = ret
        A, B, R = val(a), val(b), val(list(r))
        F = _ints(t, [flag], nrows)
        k = max(len(a), len(b))
        if len(r) != k:
            raise Violation('result_length', f'subtract_with_compare: {len(r)} bits for widths {len(a)},{len(b)}')
        for j in rows:
            if R[j] != (A[j] - B[j]) % (1 << k) or bool(F[j]) != (A[j] < B[j]):
                raise Violation('wrong_subtract_with_compare',
                                f'{form} |a|={len(a)} |b|={len(b)} big_endian={be}: a={A[j]} b={B[j]} -> diff {R[j]} borrow {F[j]}')
        cls.add('equal_widths' if len(a) == len(b) else 'unequal_widths')
    elif kind == 'div_mod':
        q, r = ret
        A, B, Q, Rm = val(a), val(b), val(list(q)), val(list(r))
        if len(q) != len(a) or len(r) != len(a):
            raise Violation('result_length', 'div_mod result lengths')
        for j in rows:
            eq, er = (A[j] // B[j], A[j] % B[j]) if B[j] else (0, 0)
            if (Q[j], Rm[j]) != (eq, er):
                raise Violation('wrong_div_mod', f'{form} n={len(a)} big_endian={be}: {A[j]} divmod {B[j]} gave ({Q[j]},{Rm[j]})')
    elif kind == 'sqrt':
        A, R = val(a), val(ret)
        if len(ret) != (len(a) + 1) // 2:
            raise Violation('result_length', f'sqrt of {len(a)} bits returned {len(ret)} bits')
        for j in rows:
            if R[j] != math.isqrt(A[j]):
                raise Violation('wrong_sqrt', f'{form} n={len(a)} big_endian={be}: isqrt({A[j]}) gave {R[j]}')
    elif kind == 'equal':
        A = _ints(t, list(a), nrows)
        E = _ints(t, [ret], nrows)
        num = case['num']
        for j in rows:
            if bool(E[j]) != (A[j] == num and num < (1 << len(a))):
                raise Violation('wrong_equal', f'{form} width={len(a)} num={num}: operand {A[j]} -> {E[j]}')
        cls.add('const_fits' if num < (1 << len(a)) else 'const_does_not_fit')
        if len(a) >= 49:
            cls.add('equal_width>=49')
    elif kind == 'plus_one':
        A, R = val(a), val(ret)
        if len(ret) != m:
            raise Violation('result_length', f'plus_one: {len(ret)} bits, expected {m}')
        for j in rows:
            if R[j] != (A[j] + 1) % (1 << m):
                raise Violation('wrong_plus_one', f'{form} inp={len(a)} out={m} big_endian={be}: {A[j]}+1 gave {R[j]}')
    elif kind == 'ite':
        I, T, E, R = (_ints(t, [x], nrows) for x in (a[0], a[1], a[2], ret[0]))
        for j in rows:
            if R[j] != (T[j] if I[j] else E[j]):
                raise Violation('wrong_if_then_else', f'{form}: if={I[j]} then={T[j]} else={E[j]} -> {R[j]}')
    elif kind == 'pairwise_xor':
        k = len(ret)
        xs, ys = a[:k], a[k:]
        for q in range(k):
            if t[ret[q]] != t[xs[q]] ^ t[ys[q]]:
                raise Violation('wrong_pairwise_xor', f'{form}: position {q}')
    else:
        k = len(ret)
        i_, t_, e_ = a[:k], a[k:2 * k], a[2 * k:]
        for q in range(k):
            exp = (t[i_[q]] & t[t_[q]]) | ((t[i_[q]] ^ mask) & t[e_[q]])
            if t[ret[q]] != exp:
                raise Violation('wrong_pairwise_if_then_else', f'{form}: position {q}')
    nt = case['n'] >= 2 and (form == 'generate' or 'internal_operands' in cls)
    return {'nt': nt, 'cls': cls, 'key': {k: v for k, v in case.items() if k != 'uuid_seed'},
            'sample': {k: (build.bench_text(v) if k == 'host' else v) for k, v in case.items() if k not in ('p1', 'p2', 'p3')}}


# ---------------------------------------------------------------------------
# wide words (finite part): plus-one, subtraction and equality on operands of 63-300 bits, at the values where carries
# run through the whole word


def wide_words(tier):
    import random
    core = cirbo_core()
    from cirbo.synthesis.generation import arithmetics as ar
    from cirbo.synthesis.generation import generation as g

    widths = [63, 64, 65, 255, 256, 257, 300] + ([] if tier == 'quick' else [127, 128, 129, 258, 511, 513])
    done = 0

    def run(c, n_in_words, what, expect):
        """-> reference netlist, inputs, word width, per-word value lists (corners first, then seeded values), number of rows"""
        nl = refsem.from_circuit(c)
        ins = list(c.inputs)
        w = len(ins) // n_in_words
        rs = random.Random(len(ins) * 7 + n_in_words)
        full = (1 << w) - 1
        corners = [full, full - 1, 0, 1, 1 << (w - 1), (1 << (w - 1)) - 1, full // 3]
        vals = []
        for word in range(n_in_words):
            # word 0 walks the corners while the others hold one, then the other way round, then seeded values
            col = []
            for k in range(7 * n_in_words):
                col.append(corners[k % 7] if k // 7 == word else corners[(k + word) % 3])
            col += [rs.getrandbits(w) for _ in range(10)]
            vals.append(col)
        return nl, ins, w, vals, len(vals[0])

    for n in widths:
        for be in (False, True):
            for m in (n, n + 1, n + 3):
                c = g.generate_plus_one(n, m, big_endian=be)
                nl, ins, w, vals, rows = run(c, 1, None, None)
                sig = (lambda i: n - 1 - i) if be else (lambda i: i)
                pats = [sum(((vals[0][j] >> sig(i)) & 1) << j for j in range(rows)) for i in range(n)]
                t = refsem.tables(nl, pats, (1 << rows) - 1)
                outs = list(c.outputs)
                if len(outs) != m:
                    raise Violation('wide:result_length', f'generate_plus_one({n}, {m}, big_endian={be}): {len(outs)} result bits')
                osig = (lambda i: m - 1 - i) if be else (lambda i: i)
                for j in range(rows):
                    got = sum(((t[o] >> j) & 1) << osig(i) for i, o in enumerate(outs))
                    if got != (vals[0][j] + 1) % (1 << m):
                        raise Violation('wide:wrong_plus_one', f'generate_plus_one({n}, {m}, big_endian={be}): x = {hex(vals[0][j])} gave {hex(got)}')
                done += 1
            c = ar.generate_sub_two_numbers(n, n, big_endian=be)
            if c is not None and len(c.inputs) == 2 * n:
                nl, ins, w, vals, rows = run(c, 2, None, None)
                sig = (lambda i: n - 1 - i) if be else (lambda i: i)
                pats = [sum(((vals[i // n][j] >> sig(i % n)) & 1) << j for j in range(rows)) for i in range(2 * n)]
                t = refsem.tables(nl, pats, (1 << rows) - 1)
                outs = list(c.outputs)
                m = len(outs)
                osig = (lambda i: m - 1 - i) if be else (lambda i: i)
                for j in range(rows):
                    got = sum(((t[o] >> j) & 1) << osig(i) for i, o in enumerate(outs))
                    if m != n or got != (vals[0][j] - vals[1][j]) % (1 << n):
                        raise Violation('wide:wrong_difference', f'generate_sub_two_numbers({n}, big_endian={be}): {hex(vals[0][j])} - {hex(vals[1][j])} gave {hex(got)} on {m} bits')
                done += 1
    return {'evaluations': done, 'distinct_nontrivial': done, 'exhaustive': False,
            'samples': ['plus-one (out = n, n+1, n+3) and subtraction on 63-300 (513) bit words, both bit orders, 17-24 rows incl. all-ones / top-bit / alternating operands']}


SPEC = {
    'id': 'C09',
    'rule': ('Hypothesis cases over generate_* and add_* forms of subtraction (widths 1-7, unequal), subtract-with-compare '
             '(equal and unequal widths), div-mod (n 1-6/7 incl. b=0, mismatched widths must raise), sqrt (n 1-12), equality '
             'gadget (widths 1-8 x constants 0..2^(w+1)), plus-one (1-8 inputs x 1-10 outputs), if-then-else, pairwise xor / '
             'if-then-else; both endiannesses; a third of the add_* cases with long numbers (up to 16 bits, div-mod 10, pairwise 12) '
             'since host operands do not enlarge the table; the first operand list sometimes IS the live inputs / outputs list of the '
             'host (add_x(c, c.outputs, ...)); add_* forms on arbitrary (internal, repeated) gates of a generated host with '
             'add_outputs both ways and result_labels given / None. Oracle: Python integers decoded row by row from the '
             'reference tables on all 2^n rows; output-marking predicate (unchanged without add_outputs, exactly the result '
             'labels added with it), host discipline (old gates structurally / functionally unchanged). Non-trivial: '
             'width >= 2 and, for add_* forms, >=1 internal operand gate.'
             ' Added during the build: plus-one and subtraction on words of 63-300 (513) bits at the values where carries run through the whole word, equality on 49-80 bit numbers against constants at the top of the range, 33-70 bit host operands, live lists as operands, generators asked twice, predicted labels, refused preludes.'),
    'assumptions': ['reference tables from vlib/refsem.py'],
    'exhaustive': {'wide_words': wide_words},
    'subs': [Sub('arith', cases, arith.with_refused_prelude(arith.with_label_collisions(check_arith)), {'quick': 3200, 'thorough': 125000}),
             # the option product kind x live list x add_outputs x endianness x given labels is small; give it its own budget
             Sub('alias', lambda tier: cases(tier, force_alias=True), check_arith, {'quick': 1600, 'thorough': 40000})],
    'required_classes': {'arith': KINDS + ['generate', 'add', 'be', 'le', 'internal_operands', 'unequal_widths',
                                           'const_does_not_fit', 'shape_mismatch_rejected', 'add_outputs', 'no_add_outputs',
                                           'operands_alias_outputs', 'operands_alias_inputs'],
                         'alias': ['operands_alias_outputs', 'operands_alias_inputs', 'plus_one', 'add_outputs', 'le']},
}
