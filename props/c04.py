"""C04 - SAT-based subcircuit minimization returns an equivalent, not larger circuit."""

from __future__ import annotations

import copy
import os

from hypothesis import strategies as st

from vlib import build, gen, refsem, wellformed
from vlib.env import cirbo_core, UuidStream
from vlib.runner import Sub, Violation

SUPPORTED = ['NOT', 'AND', 'NAND', 'OR', 'NOR', 'XOR', 'NXOR', 'GEQ', 'LT', 'LEQ', 'GT']
WEIGHTED = ['NOT', 'NOT'] + [t for t in SUPPORTED if t != 'NOT'] * 2
UNSUPPORTED = ['IFF', 'LIFF', 'RNOT', 'ALWAYS_TRUE']


MOTIFS = {
    # name: (number of operands, builder(ops, prefix) -> list of gates, last one is the motif output)
    'xor_of_ands': (3, lambda o, p: [[p + 'a', 'AND', [o[0], o[1]]], [p + 'b', 'AND', [o[0], o[2]]], [p + 'o', 'XOR', [p + 'a', p + 'b']]]),
    'or_of_ands': (3, lambda o, p: [[p + 'a', 'AND', [o[0], o[1]]], [p + 'b', 'AND', [o[0], o[2]]], [p + 'o', 'OR', [p + 'a', p + 'b']]]),
    'and_of_ors': (3, lambda o, p: [[p + 'a', 'OR', [o[0], o[1]]], [p + 'b', 'OR', [o[0], o[2]]], [p + 'o', 'AND', [p + 'a', p + 'b']]]),
    'xor3_and': (4, lambda o, p: [[p + 'a', 'AND', [o[0], o[1]]], [p + 'u', 'XOR', [p + 'a', o[3]]], [p + 'b', 'AND', [o[0], o[2]]],
                                  [p + 'o', 'XOR', [p + 'u', p + 'b']]]),
    'xor_expanded': (2, lambda o, p: [[p + 'a', 'GT', [o[0], o[1]]], [p + 'b', 'LT', [o[0], o[1]]], [p + 'o', 'OR', [p + 'a', p + 'b']]]),
    'nand_tree_xor': (2, lambda o, p: [[p + 'n', 'NAND', [o[0], o[1]]], [p + 'a', 'NAND', [o[0], p + 'n']], [p + 'b', 'NAND', [o[1], p + 'n']],
                                       [p + 'o', 'NAND', [p + 'a', p + 'b']]]),
    'plain': (2, lambda o, p: [[p + 'o', 'AND', [o[0], o[1]]]]),
}


@st.composite
def motif_netlists(draw):
    """Chains of locally redundant cones that share primary inputs (overlapping improvable cones)."""
    n_in = draw(st.sampled_from([3, 4, 4, 5]))
    ins = [f'i{k}' for k in range(n_in)]
    gates = [[x, 'INPUT', []] for x in ins]
    outs_of_motifs = []
    seen_gates: dict = {}
    prev_ops: list = []
    names = list(MOTIFS) + ['xor3_and', 'xor3_and', 'xor_of_ands']
    for k in range(draw(st.integers(2, 4))):
        name = draw(st.sampled_from(names))
        arity, builder = MOTIFS[name]
        pool = ins + outs_of_motifs
        overlap = bool(outs_of_motifs) and draw(st.integers(0, 2)) > 0
        ops = []
        for q in range(arity):
            if overlap and q == arity - 1:
                cand = outs_of_motifs[-1]  # the previous cone output becomes a leaf of this cone
            elif overlap and prev_ops and draw(st.integers(0, 3)) > 0:
                cand = prev_ops[draw(st.integers(0, len(prev_ops) - 1))]  # share primary inputs with the previous cone
            else:
                cand = pool[draw(st.integers(0, len(pool) - 1))]
            tries = 0
            while cand in ops and tries < len(pool):
                cand = pool[(pool.index(cand) + 1) % len(pool)]
                tries += 1
            ops.append(cand)
        new = builder(ops, f'm{k}_')
        # structural hashing: an identical gate that exists already is re-used, so that sharing inputs between
        # motifs does not create (functionally equivalent) duplicate gates
        ren = {}
        for lab, ty, gops in new:
            gops = [ren.get(x, x) for x in gops]
            key = (ty, tuple(sorted(gops)) if ty in refsem.SYMMETRIC else tuple(gops))
            if key in seen_gates:
                ren[lab] = seen_gates[key]
                continue
            seen_gates[key] = lab
            gates.append([lab, ty, gops])
        outs_of_motifs.append(ren.get(new[-1][0], new[-1][0]))
        prev_ops = [o for o in ops if o in ins]
    outputs = [outs_of_motifs[-1]]
    if draw(st.booleans()):
        outputs.append(outs_of_motifs[draw(st.integers(0, len(outs_of_motifs) - 1))])
    nl = {'inputs': ins, 'gates': gates, 'outputs': outputs, 'style': 'plain'}
    reach = refsem.reachable(nl)
    nl['gates'] = [g for g in gates if g[1] == 'INPUT' or g[0] in reach]
    return nl


def machinery_labels(draw, nl):
    """One case in four: labels of the kind the machinery itself hands out while it works (temporaries, synthesised gates):
    tmp_<k>, s<k> - in an order of their own."""
    if draw(st.integers(0, 3)):
        return nl
    labs_ = [g[0] for g in nl['gates']]
    perm = draw(st.permutations(list(range(len(labs_)))))
    pre = draw(st.sampled_from(['tmp_', 'tmp_', 'tmp_', 's']))
    ren = {l: f'{pre}{perm[i]}' for i, l in enumerate(labs_)}
    return dict(nl, inputs=[ren[x] for x in nl['inputs']], outputs=[ren[x] for x in nl['outputs']],
                gates=[[ren[l], t, [ren[o] for o in ops]] for l, t, ops in nl['gates']], style='mixed')


@st.composite
def cases(draw, tier):
    big = tier == 'thorough'
    shape = draw(st.sampled_from(['live', 'live', 'dead', 'unsupported', 'motif', 'motif', 'motif', 'motif']))
    if shape == 'motif':
        nl = machinery_labels(draw, draw(motif_netlists()))
        return {
            'nl': nl, 'shape': shape,
            'basis': draw(st.sampled_from(['XAIG', 'FULL', 'XAIG', 'AIG', 'enum:XAIG'])),
            'max_subcircuit_size': draw(st.integers(4, 7)),
            'cut_size': draw(st.sampled_from([3, 4, 4])),
            'cut_limit': draw(st.sampled_from([8, 25, 25])),
            'fanout_size': 10000,
            'time_limit': draw(st.sampled_from([0, 0, 0, 15])),
            'enable_validation': draw(st.booleans()),
            'policy': {'mode': draw(st.sampled_from(['reference', 'generated'])), 'seed': draw(st.integers(0, 10 ** 6)),
                       'priority': draw(st.sampled_from(['random', 'large_first', 'small_first'])),
                       'list_order': draw(st.sampled_from(['kept', 'shuffled']))},
            'uuid_seed': draw(st.integers(0, 2 ** 20)), 'inject': [3, 0],
            'route': draw(gen.routes(nl)),
        }
    types = WEIGHTED if shape != 'unsupported' else WEIGHTED + UNSUPPORTED
    nl = draw(gen.netlists(min_inputs=draw(st.sampled_from([2, 3, 3, 4])), max_inputs=5, min_gates=2,
                           max_gates=draw(st.sampled_from([5, 7, 9, 12] if not big else [6, 9, 12, 14])), types=types,
                           max_arity=2, styles=('plain', 'digits'), min_outputs=1, max_outputs=3, outputs_from='gates',
                           dup_rate=draw(st.sampled_from([0, 0, 0, 2]))))
    if shape == 'live':
        reach = refsem.reachable(nl)
        nl = dict(nl, gates=[g for g in nl['gates'] if g[1] == 'INPUT' or g[0] in reach])
    if shape != 'unsupported' and draw(st.booleans()):
        nl = inflate(nl, [draw(st.integers(0, 30)) for _ in range(draw(st.integers(1, 3)))])
    if shape != 'unsupported' and draw(st.integers(0, 4)) == 0:
        # a bare constant read by ordinary gates of a cone (TRUE more often than FALSE): K, u = T(K, g), v = T2(u, h)
        labs_ = [g[0] for g in nl['gates']]
        kt = draw(st.sampled_from(['ALWAYS_TRUE', 'ALWAYS_TRUE', 'ALWAYS_FALSE']))
        g1, g2 = labs_[draw(st.integers(0, len(labs_) - 1))], labs_[draw(st.integers(0, len(labs_) - 1))]
        t1, t2 = draw(st.sampled_from(['AND', 'XOR', 'OR', 'NAND'])), draw(st.sampled_from(['AND', 'XOR', 'OR', 'NOR']))
        extra = [['kc_k', kt, []], ['kc_u', t1, ['kc_k', g1] if draw(st.booleans()) else [g1, 'kc_k']], ['kc_v', t2, ['kc_u', g2]]]
        if not any(l.startswith('kc_') for l in labs_):
            nl = dict(nl, gates=list(nl['gates']) + extra, outputs=list(nl['outputs']) + ['kc_v'] + (['kc_u'] if draw(st.booleans()) else []))
    nl = machinery_labels(draw, nl)
    extra_out = draw(st.sampled_from([None, None, None, 'input', 'input', 'repeat']))
    if extra_out and nl['outputs']:
        # an output that is a primary input (pass-through wire), or the same gate listed at two output positions
        lab = nl['inputs'][draw(st.integers(0, len(nl['inputs']) - 1))] if extra_out == 'input' else nl['outputs'][0]
        outs = list(nl['outputs'])
        outs.insert(draw(st.integers(0, len(outs))), lab)
        nl = dict(nl, outputs=outs)
    case = {
        'nl': nl, 'shape': shape,
        'basis': draw(st.sampled_from(['AIG', 'XAIG', 'XAIG', 'FULL', 'xaig', 'Aig', 'enum:AIG', 'enum:XAIG', 'enum:FULL'])),
        'max_subcircuit_size': draw(st.integers(2, 6 if big else 5)),
        'cut_size': draw(st.integers(2, 4)),
        'cut_limit': draw(st.sampled_from([2, 3, 5, 8, 25])),
        'fanout_size': draw(st.sampled_from([10000, 10000, 2])),
        'time_limit': draw(st.sampled_from([0] * 14 + [15] * 5 + [1])),
        'enable_validation': draw(st.booleans()),
        'policy': {'mode': draw(st.sampled_from(['reference', 'generated', 'generated'])), 'seed': draw(st.integers(0, 10 ** 6)),
                   'priority': draw(st.sampled_from(['random', 'large_first', 'small_first'])),
                   'list_order': draw(st.sampled_from(['kept', 'shuffled']))},
        'uuid_seed': draw(st.integers(0, 2 ** 20)),
        'inject': [draw(st.integers(2, 4)), draw(st.integers(0, 3))],
    }
    case['route'] = draw(gen.routes(nl))
    if draw(st.integers(0, 3)) == 0:
        blocks = [[draw(st.integers(0, 30)) for _ in range(draw(st.integers(1, 4)))] for _ in range(draw(st.integers(1, 3)))]
        if len(blocks) >= 2 and draw(st.booleans()):
            blocks[1] = blocks[0][:1] + blocks[1][:1]   # overlaps / nests with the first one
        case['blocks'] = blocks
    return case


EXPANSIONS = {
    'XOR': lambda a, b, p: [[p + 'a', 'GT', [a, b]], [p + 'b', 'LT', [a, b]], ['OR', [p + 'a', p + 'b']]],
    'NXOR': lambda a, b, p: [[p + 'a', 'AND', [a, b]], [p + 'b', 'NOR', [a, b]], ['OR', [p + 'a', p + 'b']]],
    'AND': lambda a, b, p: [[p + 'a', 'NAND', [a, b]], ['NOT', [p + 'a']]],
    'OR': lambda a, b, p: [[p + 'a', 'NOR', [a, b]], ['NOT', [p + 'a']]],
    'NAND': lambda a, b, p: [[p + 'a', 'NOT', [a]], [p + 'b', 'NOT', [b]], ['OR', [p + 'a', p + 'b']]],
    'NOR': lambda a, b, p: [[p + 'a', 'NOT', [a]], [p + 'b', 'NOT', [b]], ['AND', [p + 'a', p + 'b']]],
    'GT': lambda a, b, p: [[p + 'a', 'NOT', [b]], ['AND', [a, p + 'a']]],
    'LEQ': lambda a, b, p: [[p + 'a', 'NOT', [a]], ['OR', [p + 'a', b]]],
}


def inflate(nl, picks):
    """Replace some gates by a functionally identical multi-gate expansion (keeps the label of the gate)."""
    gates = [list(g) for g in nl['gates']]
    for k, pick in enumerate(picks):
        cand = [i for i, g in enumerate(gates) if g[1] in EXPANSIONS and len(g[2]) == 2]
        if not cand:
            break
        i = cand[pick % len(cand)]
        lab, typ, (a, b) = gates[i][0], gates[i][1], gates[i][2]
        exp = EXPANSIONS[typ](a, b, f'e{k}_{lab}_')
        new = [list(x) for x in exp[:-1]] + [[lab, exp[-1][0], list(exp[-1][1])]]
        gates[i:i + 1] = new
    return dict(nl, gates=gates)


def motif_pair_netlist(m1, m2, ops2):
    """Two chained motifs over inputs i0..i4: the second takes the first one's output as its last operand."""
    ins = [f'i{k}' for k in range(5)]
    a1, b1 = MOTIFS[m1]
    a2, b2 = MOTIFS[m2]
    gates = [[x, 'INPUT', []] for x in ins]
    seen = {}
    outs = []
    for k, (builder, ops) in enumerate(((b1, ins[:a1]), (b2, None))):
        if ops is None:
            ops = [ins[q] for q in ops2] + [outs[0]]
        ren = {}
        new = builder(ops, f'm{k}_')
        for lab, ty, gops in new:
            gops = [ren.get(x, x) for x in gops]
            key = (ty, tuple(sorted(gops)) if ty in refsem.SYMMETRIC else tuple(gops))
            if key in seen:
                ren[lab] = seen[key]
                continue
            seen[key] = lab
            gates.append([lab, ty, gops])
        outs.append(ren.get(new[-1][0], new[-1][0]))
    nl = {'inputs': ins, 'gates': gates, 'outputs': [outs[-1]], 'style': 'plain'}
    reach = refsem.reachable(nl)
    nl['gates'] = [g for g in gates if g[1] == 'INPUT' or g[0] in reach]
    nl['inputs'] = [i for i in ins]
    return nl


def motif_pair_space():
    import itertools

    space = []
    names = [n for n in MOTIFS if n != 'plain']
    for m1 in names:
        for m2 in names:
            a2 = MOTIFS[m2][0]
            for ops2 in itertools.permutations(range(5), a2 - 1):
                space.append((m1, m2, list(ops2)))
    return space


def motif_pairs_sweep(tier, shard, nshards, seed):
    import random

    space = motif_pair_space()
    if tier == 'thorough':
        # every pair with three different parameter settings
        space = space + space + space
    done = nt = 0
    sample = None
    for idx, (m1, m2, ops2) in enumerate(space):
        if idx % nshards != shard:
            continue
        case = motif_pair_case(m1, m2, ops2, idx + seed)
        try:
            info = check_minimize(case)
        except Violation as v:
            v.case = case
            raise
        done += 1
        if info.get('nt'):
            nt += 1
        sample = {'motifs': [m1, m2], 'second_operands': ops2, 'bench': build.bench_text(case['nl'])}
    return {'evaluations': done, 'distinct_nontrivial': nt, 'exhaustive': True,
            'samples': [sample] if sample else []}


def motif_pair_case(m1, m2, ops2, k):
    return {'nl': motif_pair_netlist(m1, m2, ops2), 'shape': 'motif', 'basis': ['XAIG', 'FULL', 'AIG'][k % 3],
            'max_subcircuit_size': 5 + k % 3, 'cut_size': 4, 'cut_limit': 25, 'fanout_size': 10000, 'time_limit': 0,
            'enable_validation': bool(k % 2),
            'policy': {'mode': 'reference' if k % 2 else 'generated', 'seed': k, 'priority': 'random', 'list_order': 'kept'},
            'uuid_seed': k, 'inject': [3, 0],
            'route': [{'kind': 'emplace'}, {'kind': 'rename', 'moves': [5 + k % 3, 6, 8 + k % 2]},
                      {'kind': 'bench', 'keys': [(k * 7 + q * 3) % 5 for q in range(20)]}][k % 3]}


def replay_motif_pair(case):
    check_minimize(case)


def wide_cut_case(k, tier):
    """A cone that only a cut of 7 (thorough: also 8) leaves exposes: an AND / OR tree over all inputs plus one gate that
    reads an input the tree already holds.  The cut policy keeps the widest cut of every node, so that the searches stay
    few; the searches over the sub-trees (no smaller circuit exists) may run into the time limit, which is legal."""
    import random

    r = random.Random(k)
    n = 7 + (k % 4 == 3 if tier == 'thorough' else 0)
    ins = [f'x{i}' for i in range(n)]
    gates = [[i, 'INPUT', []] for i in ins]
    t = r.choice(['AND', 'OR', 'NAND', 'NOR'])
    inner = {'NAND': 'AND', 'NOR': 'OR'}.get(t, t)
    layer = list(ins)
    r.shuffle(layer)
    idx = 0
    while len(layer) > 1:
        nxt = []
        for q in range(0, len(layer) - 1, 2):
            gates.append([f'g{idx}', inner, [layer[q], layer[q + 1]]])
            nxt.append(f'g{idx}')
            idx += 1
        if len(layer) % 2:
            nxt.append(layer[-1])
        layer = nxt
    gates.append(['r', t, [layer[0], ins[r.randrange(n)]]])
    nl = {'inputs': ins, 'gates': gates, 'outputs': ['r'], 'style': 'plain'}
    return {'nl': nl, 'shape': 'live', 'basis': ['AIG', 'XAIG', 'FULL', 'enum:XAIG'][k % 4], 'max_subcircuit_size': n + k % 2, 'cut_size': n,
            'cut_limit': 2, 'fanout_size': 10000, 'time_limit': 3 if n == 7 else 10, 'enable_validation': False,
            'policy': {'mode': 'generated', 'seed': k, 'priority': 'large_first', 'list_order': 'kept'}, 'uuid_seed': k,
            'inject': [3, 0], 'route': [{'kind': 'emplace'}, {'kind': 'add_gate'}, {'kind': 'bench', 'keys': [3, 1, 4, 1, 5, 2, 6]}][k % 3]}


def wide_cuts_sweep(tier, shard, nshards, seed):
    total = 8 if tier == 'quick' else 64
    done = nt = 0
    sample = None
    for idx in range(total):
        if idx % nshards != shard:
            continue
        case = wide_cut_case(seed * 1000 + idx, tier)
        try:
            info = check_minimize(case)
        except Violation as v:
            v.case = case
            raise
        done += 1
        if 'smaller' in info.get('cls', ()):
            nt += 1
        sample = {'cut_size': case['cut_size'], 'bench': build.bench_text(case['nl']), 'classes': sorted(info.get('cls', ()))}
    return {'evaluations': done, 'distinct_nontrivial': nt, 'exhaustive': False, 'samples': [sample] if sample else []}


def circuit_classes(nl):
    t = refsem.tables(nl)
    n = len(nl['inputs'])
    full = (1 << (1 << n)) - 1
    labs = [g[0] for g in nl['gates']]
    vals = [t[l] for l in labs]
    cls = set()
    if len(set(vals)) < len(vals):
        cls.add('eq')
    elif any((v ^ full) in set(vals) for v in vals):
        cls.add('comp')
    else:
        cls.add('clean')
    if any(v in (0, full) for v in vals):
        cls.add('const')
    reach = refsem.reachable(nl)
    if any(g[1] != 'INPUT' and g[0] not in reach for g in nl['gates']):
        cls.add('dead')
    return cls


def check_minimize(case):
    core = cirbo_core()
    from cirbo.minimization.exception import FailedValidationError, UnsupportedOperationError
    from cirbo.minimization.subcircuit import minimize_subcircuits
    from cirbo.synthesis.circuit_search import Basis
    import mockturtle_wrapper as mw
    import pysat.solvers as shim

    nl = case['nl']
    c = build.build(nl, case.get('route'))
    # named blocks on the circuit (nested / overlapping): bookkeeping the minimiser has to carry along
    glabs = [g[0] for g in nl['gates'] if g[1] != 'INPUT']
    for bi, members in enumerate(case.get('blocks') or []):
        ms = list(dict.fromkeys(glabs[i % len(glabs)] for i in members)) if glabs else []
        if ms:
            c.make_block(f'blk{bi}', ms, ms[-1:])
    snapshot_nl = refsem.from_circuit(c)
    stored = [g.label for g in c.gates.values()]
    spos = {l: i for i, l in enumerate(stored)}
    storage_not_topological = any(spos[o] > spos[l] for l, _, ops in nl['gates'] for o in ops)
    cls = circuit_classes(nl) | {'shape:' + case['shape']}
    if case.get('blocks'):
        cls.add('named_blocks')
    if storage_not_topological:
        cls.add('storage_not_topological')
    unsupported = any(g[1] not in SUPPORTED + ['INPUT'] for g in nl['gates'])
    basis = case['basis']
    basis_arg = Basis[basis[5:]] if basis.startswith('enum:') else basis
    mw.POLICY.clear()
    mw.POLICY.update(case['policy'])
    inject = case['time_limit'] == 1
    if inject:
        os.environ['VERIF_SAT_TIMEOUT_INJECT'] = f'{case["inject"][0]}:{case["inject"][1] % case["inject"][0]}:1.6'
        cls.add('timeout_injection')
    calls_before = shim.STATS['calls']
    gn_before = c.gates_number()
    desc = (f'basis={basis} max_subcircuit_size={case["max_subcircuit_size"]} cut_size={case["cut_size"]} cut_limit={case["cut_limit"]} '
            f'fanout={case["fanout_size"]} time_limit={case["time_limit"]} validation={case["enable_validation"]} policy={case["policy"]} '
            f'classes={sorted(cls)}\n{build.bench_text(nl)}')
    try:
        with UuidStream(case['uuid_seed']):
            res = minimize_subcircuits(c, basis_arg, enable_validation=case['enable_validation'],
                                       max_subcircuit_size=case['max_subcircuit_size'],
                                       solver_time_limit_sec=case['time_limit'], cut_size=case['cut_size'],
                                       cut_limit=case['cut_limit'], fanout_size=case['fanout_size'])
    except UnsupportedOperationError:
        if unsupported:
            return {'nt': False, 'cls': cls | {'unsupported_rejected'}}
        raise Violation('unsupported_raised_on_supported', desc)
    except FailedValidationError:
        raise Violation('failed_validation:' + _kind(cls), 'FailedValidationError (the minimised circuit is not equivalent)\n' + desc)
    except Violation:
        raise
    except Exception as e:  # noqa
        if 'eq' in cls:
            # the third clause of the statement covers circuits without functionally equivalent gates only
            return {'nt': False, 'cls': cls | {'exception_on_eq_circuit:' + type(e).__name__}}
        import traceback

        fr = traceback.extract_tb(e.__traceback__)[-1]
        raise Violation(f'internal_error:{type(e).__name__}@{os.path.basename(fr.filename)}:{fr.name}:' + _kind(cls),
                        f'{type(e).__name__}: {e}\n' + desc)
    finally:
        os.environ.pop('VERIF_SAT_TIMEOUT_INJECT', None)
        mw.POLICY.clear()
    rn = refsem.from_circuit(res)
    if rn['inputs'] != nl['inputs']:
        raise Violation('inputs_changed', f'inputs {nl["inputs"]} -> {rn["inputs"]}\n' + desc)
    if len(rn['outputs']) != len(nl['outputs']):
        raise Violation('output_count', f'{len(nl["outputs"])} -> {len(rn["outputs"])} outputs\n' + desc)
    try:
        t1 = refsem.tables(rn)
    except (refsem.ArityError, ValueError, KeyError) as e:
        raise Violation('result_malformed:' + _kind(cls), f'{type(e).__name__}: {e}\n' + desc)
    t0 = refsem.tables(nl)
    for k, (a, b) in enumerate(zip(nl['outputs'], rn['outputs'])):
        if t0[a] != t1[b]:
            raise Violation('not_equivalent:' + _kind(cls), f'output {k} ({a} -> {b}) computes a different function\n' + desc
                            + '\n--- result ---\n' + build.bench_text(rn))
    if res.gates_number() > gn_before:
        raise Violation('larger', f'{gn_before} -> {res.gates_number()} non-trivial gates\n' + desc)
    pr = wellformed.problems(res)
    if pr:
        raise Violation('wellformed:' + _kind(cls), '; '.join(pr[:3]) + '\n' + desc)
    changed = sorted(map(repr, rn['gates'])) != sorted(map(repr, nl['gates'])) or rn['outputs'] != nl['outputs']
    cls.add('basis:' + basis.replace('enum:', '').upper())
    cls.add('policy:' + case['policy']['mode'])
    if case['time_limit'] == 15:
        cls.add('forked_solver')
    if changed:
        cls.add('changed')
        cls.add(_kind(cls) + '&changed')
    if res.gates_number() < gn_before:
        cls.add('smaller')
    return {'nt': changed, 'cls': cls, 'count': {'solver_calls': shim.STATS['calls'] - calls_before,
                                                   'gates_saved': gn_before - res.gates_number()},
            'key': [nl['inputs'], nl['gates'], nl['outputs'], {k: v for k, v in case.items() if k not in ('nl',)}],
            'sample': {'bench': build.bench_text(nl), 'params': {k: v for k, v in case.items() if k != 'nl'},
                       'result': build.bench_text(rn)}}


def _kind(cls):
    base = 'eq' if 'eq' in cls else 'comp' if 'comp' in cls else 'clean'
    return base + ('+dead' if 'dead' in cls else '')


SPEC = {
    'id': 'C04',
    'rule': ('Hypothesis circuits over the supported gate set (NOT + 10 two-input types, 2-5 inputs, 2-14 gates; live = built '
             'from the cone of the outputs, or with dead gates; literal duplicates; a class with unsupported types that must be '
             'rejected; shape motif = chains of locally redundant cones sharing inputs; every case built through a storage-order route) x basis AIG/XAIG/FULL as string (any case) or enum x max_subcircuit_size 2-6 x cut_size 2-4 x cut_limit '
             '2-25 x fanout limit x solver_time_limit_sec 0 (in-process) / 15 (forked) / 1 with deterministic time-out injection x '
             'enable_validation x a GENERATED admissible cut family (policy-driven stand-in for the cut enumerator: node order, '
             'priority of the cut_limit truncation, listing order) x per-worker PYTHONHASHSEED x seeded uuid stream. Oracle: same '
             'inputs in order, same number of outputs, reference truth table equal output by output, gates_number() not larger, '
             'wellformed(); FailedValidationError is always a violation; any other exception is a violation on circuits without '
             'functionally equivalent gates. Case classes eq / comp / clean, const, dead computed from reference tables. '
             'Finite part: all 780 two-motif chains (sharded, every run). Non-trivial: the result differs structurally from the argument.'
             ' Added during the build: labels of the kind the machinery hands out itself (tmp_<k>, s<k>), a bare constant read by ordinary gates of a cone, sharded sweep wide_cuts (AND / OR / NAND / NOR trees over 7, thorough also 8, inputs plus one redundant gate, widest-cut policy, 3 s / 10 s solver limit), pass-through and repeated outputs, named blocks on the argument.'),
    'assumptions': ['cut enumerator and SAT solver are stand-ins inside the quantified domain (any admissible cut family, any sound and complete solver)'],
    'sharded': {'motif_pairs': motif_pairs_sweep, 'wide_cuts': wide_cuts_sweep},
    'replay': {'motif_pairs': replay_motif_pair, 'wide_cuts': replay_motif_pair},
    'subs': [Sub('minimize', cases, check_minimize, {'quick': 3200, 'thorough': 60000}, shrink_quick=False)],
    'required_classes': {'minimize': ['clean', 'comp', 'eq', 'dead', 'changed', 'smaller', 'clean&changed', 'shape:motif', 'storage_not_topological', 'policy:generated',
                                      'policy:reference', 'forked_solver', 'timeout_injection', 'unsupported_rejected',
                                      'basis:AIG', 'basis:XAIG', 'basis:FULL']},
}
