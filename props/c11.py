"""C11 - bench text round-trips and the parser is faithful."""

from __future__ import annotations

import os
import shutil
import tempfile

from hypothesis import strategies as st

from vlib import build, gen, refsem, wellformed
from vlib.env import cirbo_core, VERIF_DIR
from vlib.runner import Sub, Violation


@st.composite
def rt_cases(draw, tier):
    big = tier == 'thorough'
    # mostly small, now and then long texts (dozens to hundreds of lines): whatever is done per block of lines shows there
    if draw(st.integers(0, 39)) == 0:
        # texts of a thousand lines and more (programmatic body, see props/c05.long_netlist)
        from props.c05 import long_netlist
        nl = long_netlist(draw(st.integers(1, 3)), draw(st.sampled_from([1019, 1021, 1024, 1030, 1100, 2060, 3100])),
                          draw(st.integers(0, 2 ** 32)), draw(st.sampled_from([0.5, 0.05])))
        return {'nl': nl, 'route': draw(gen.routes(nl, allow_bench=False)), 'via_file': draw(st.integers(0, 2)) == 0,
                'same_path': draw(st.booleans())}
    long_ = draw(st.integers(0, 11)) == 0
    nl = draw(gen.netlists(empty_label=False, min_inputs=0, max_inputs=6 if big else 5,
                           min_gates=draw(st.sampled_from([33, 40, 65, 70, 100, 130])) if long_ else 0,
                           max_gates=(260 if big else 140) if long_ else (30 if big else 16), max_arity=5, wide_arity=13,
                           styles=('plain', 'digits', 'mixed', 'keyword', 'keyword'), max_outputs=4,
                           const_operands=(0, 0, 2, 1, 3)))
    return {'nl': nl, 'route': draw(gen.routes(nl, allow_bench=False)), 'via_file': draw(st.integers(0, 3)) == 0,
            'same_path': draw(st.booleans())}


def _kw_classes(nl):
    cls = set()
    typ = {g[0]: g[1] for g in nl['gates']}
    for lab, t in typ.items():
        up = lab.upper()
        for kw in ('INPUT', 'OUTPUT', 'VDD', 'BUFF', 'NOT', 'AND', 'GND'):
            if up.startswith(kw):
                cls.add(f'kw_{kw.lower()}_on_' + ('input' if t == 'INPUT' else 'gate'))
    for o in nl['outputs']:
        if o.upper().startswith(('INPUT', 'OUTPUT')):
            cls.add('kw_on_output')
    return cls


_FIXED = {}


def _fixed_dir():
    if 'd' not in _FIXED:
        import atexit

        _FIXED['d'] = tempfile.mkdtemp(prefix='c11_same_', dir=os.path.join(VERIF_DIR, '.scratch'))
        atexit.register(shutil.rmtree, _FIXED['d'], ignore_errors=True)
    return _FIXED['d']


BAD_TEXTS = [
    'INPUT(a)\nINPUT(b)\nOUTPUT(zz)\nOUTPUT(a)\nzz = MAJ(a, b, a)\n',           # unknown operator after the declarations
    'INPUT(a)\nOUTPUT(q)\nq = NOT(a, a)\n',                                     # wrong operand count
    'INPUT(a)\nOUTPUT(q)\nOUTPUT(r)\nq = AND(a, nowhere)\nr = OR(a, q)\n',      # operand that is never defined
    'OUTPUT(x)\nINPUT(a)\nthis line is not bench\nx = NOT(a)\n',
]


def refused_parse_before(case, core):
    """One case in five: the process first parses a text the parser has to refuse (whatever it answers is ignored).  The
    parse that follows is an ordinary one: nothing of the refused text may reach it."""
    k = len(case['nl']['gates']) + len(case['nl']['outputs'])
    if k % 5:
        return False
    try:
        core.Circuit.from_bench_string(BAD_TEXTS[k // 5 % len(BAD_TEXTS)])
    except Exception:  # noqa
        pass
    return True


def check_roundtrip(case):
    core = cirbo_core()
    nl = case['nl']
    after_refusal = refused_parse_before(case, core)
    c = build.build(nl, case['route'])
    fixed_first = False
    if nl['inputs'] and (len(nl['gates']) + 2 * len(nl['outputs'])) % 4 == 0:
        # a circuit with a past: some of its inputs were fixed to constants before it is written out
        ins = list(c.inputs)
        c.replace_inputs(ins[:1], ins[2:3])
        fixed_first = True
    text = c.format_circuit()
    if case['via_file']:
        # either a fresh directory, or ONE file name per process that every such case overwrites (a user saving
        # successive versions of a circuit under the same name and loading them back)
        d = _fixed_dir() if case.get('same_path') else tempfile.mkdtemp(prefix='c11_', dir=os.path.join(VERIF_DIR, '.scratch'))
        try:
            path = os.path.join(d, 'sub', 'c.bench')
            c.save_to_file(path)
            # (what the file holds is the library's business - the statement is about what loading it gives back)
            try:
                parsed = core.Circuit.from_bench_file(path)
            except core.CirboError as e:
                raise Violation('saved_file_rejected', f'from_bench_file(save_to_file(c)) raised {type(e).__name__}: {e}')
        finally:
            if not case.get('same_path'):
                shutil.rmtree(d, ignore_errors=True)
    else:
        parsed = core.Circuit.from_bench_string(text)
    if not (parsed == c):
        raise Violation('roundtrip', f'parse(format(c)) != c\n--- text ---\n{text[:4000]}\n--- parsed ---\n{build.bench_text(refsem.from_circuit(parsed))[:4000]}')
    if list(parsed.inputs) != list(c.inputs) or list(parsed.outputs) != list(c.outputs):
        raise Violation('roundtrip_order', 'input / output order changed')
    for lab, g in c.gates.items():
        pg = parsed.gates[lab]
        if pg.gate_type.name != g.gate_type.name or tuple(pg.operands) != tuple(g.operands):
            raise Violation('roundtrip', f'gate {lab} differs')
    pr = wellformed.basic_problems(parsed)
    if pr:
        raise Violation('wellformed', '; '.join(pr[:3]))
    cls = gen.classify(nl) | _kw_classes(nl)
    cls.add('route:' + case['route']['kind'])
    if case['via_file']:
        cls.add('via_file_same_path' if case.get('same_path') else 'via_file')
    if sum(1 for g in nl['gates'] if g[1] != 'INPUT') > 64:
        cls.add('long_text_via_file' if case['via_file'] else 'long_text')
    if len(text.splitlines()) > 1024:
        cls.add('lines>1024')
    if after_refusal:
        cls.add('after_refused_parse')
    if fixed_first:
        cls.add('inputs_fixed_before')
    nt = any(k.startswith('kw_') for k in cls) or case['route']['kind'] == 'rename'
    return {'nt': nt and gen.nontrivial_basic(nl), 'cls': cls, 'sample': {'text': text}}


# ---------------------------------------------------------------------------
# (b) netlist + generated textual layout


def _case_variant(draw, word):
    mode = draw(st.sampled_from(['upper', 'upper', 'lower', 'title', 'mixed']))
    if mode == 'upper':
        return word.upper()
    if mode == 'lower':
        return word.lower()
    if mode == 'title':
        return word.title()
    return ''.join(ch.upper() if i % 2 else ch.lower() for i, ch in enumerate(word))


@st.composite
def layout_cases(draw, tier):
    big = tier == 'thorough'
    long_ = draw(st.integers(0, 15)) == 0
    nl = draw(gen.netlists(empty_label=False, min_inputs=0, max_inputs=5, min_gates=draw(st.sampled_from([33, 65, 100])) if long_ else 0,
                           max_gates=(200 if big else 120) if long_ else (24 if big else 14), max_arity=5, wide_arity=13,
                           styles=('plain', 'digits', 'mixed', 'keyword'), max_outputs=4,
                           const_operands=(0, 0, 2, 1, 3)))
    sp = lambda: ' ' * draw(st.sampled_from([0, 0, 1, 1, 2]))
    lines = []
    for lab in nl['inputs']:
        lines.append((draw(st.integers(0, 9)), 'decl', f'{_case_variant(draw, "INPUT")}({sp()}{lab}{sp()}){sp()}'))
    for lab, typ, ops in nl['gates']:
        if typ == 'INPUT':
            continue
        if typ == 'IFF':
            name = draw(st.sampled_from(['BUFF', 'IFF', 'BUFF']))
        else:
            name = typ
        if typ == 'ALWAYS_TRUE' and not ops and draw(st.booleans()):
            body = draw(st.sampled_from(['vdd', 'VDD', 'Vdd'])) + sp()
        else:
            args = (sp() + ',' + sp()).join(ops)
            body = f'{_case_variant(draw, name)}{sp()}({sp()}{args}{sp()}){sp()}'
        lines.append((draw(st.integers(0, 9)), 'gate', f'{lab}{sp()}={sp()}{body}'))
    for lab in nl['outputs']:
        lines.append((draw(st.integers(0, 9)), 'decl', f'{_case_variant(draw, "OUTPUT")}({sp()}{lab}{sp()}){sp()}'))
    # stable sort by key keeps relative order of INPUT lines / OUTPUT lines (their order is the interface)
    order = sorted(range(len(lines)), key=lambda i: lines[i][0])
    out = []
    for i in order:
        if draw(st.integers(0, 7)) == 0:
            out.append(draw(st.sampled_from(['', '# comment', '#INPUT(zz)', '# x = AND(a, b)', '#'])))
        out.append(lines[i][2])
    text = '\n'.join(out) + ('\n' if draw(st.booleans()) else '')
    return {'nl': nl, 'text': text,
            'entry': draw(st.sampled_from(['string', 'string', 'file', 'parser_lines', 'parser_stripped']))}


def check_layout(case):
    core = cirbo_core()
    nl, text = case['nl'], case['text']
    after_refusal = refused_parse_before(case, core)
    entry = case.get('entry', 'string')
    parser_cls = None
    if entry.startswith('parser'):
        try:
            from cirbo.core.parser.bench import BenchToCircuit as parser_cls
        except ImportError:
            entry = 'string'
    if entry == 'file':
        d = tempfile.mkdtemp(prefix='c11_', dir=os.path.join(VERIF_DIR, '.scratch'))
        try:
            path = os.path.join(d, 'layout.bench')
            with open(path, 'w') as f:
                f.write(text)
            parsed = core.Circuit.from_bench_file(path)
        finally:
            shutil.rmtree(d, ignore_errors=True)
    elif entry == 'parser_lines':
        # the parser object itself, fed the lines with their terminators
        parsed = parser_cls().convert_to_circuit(text.splitlines(keepends=True))
    elif entry == 'parser_stripped':
        # ... or without them (text.splitlines()), as a one-shot generator
        parsed = parser_cls().convert_to_circuit(ln for ln in text.splitlines())
    else:
        parsed = core.Circuit.from_bench_string(text)
    got = refsem.from_circuit(parsed)
    # inputs in the order of INPUT lines, outputs in the order of OUTPUT lines
    exp_in, exp_out = [], []
    for ln in text.split('\n'):
        s = ln.strip()
        up = s.upper()
        if up.startswith('INPUT(') and '=' not in s:
            exp_in.append(s[6:].rstrip(') ').strip())
        elif up.startswith('OUTPUT(') and '=' not in s:
            exp_out.append(s[7:].rstrip(') ').strip())
    assert sorted(exp_in) == sorted(nl['inputs']) and sorted(exp_out) == sorted(nl['outputs'])
    if got['inputs'] != exp_in:
        raise Violation('layout_inputs', f'inputs {got["inputs"]} expected {exp_in}\n{text}')
    if got['outputs'] != exp_out:
        raise Violation('layout_outputs', f'outputs {got["outputs"]} expected {exp_out}\n{text}')
    gmap = {g[0]: (g[1], list(g[2])) for g in got['gates']}
    emap = {g[0]: (g[1], list(g[2])) for g in nl['gates']}
    if gmap != emap:
        diff = [k for k in set(gmap) | set(emap) if gmap.get(k) != emap.get(k)]
        raise Violation('layout_gates', f'gates differ at {sorted(diff)[:4]}: parsed {[gmap.get(k) for k in sorted(diff)[:4]]} '
                                        f'expected {[emap.get(k) for k in sorted(diff)[:4]]}\n{text}')
    ref = {'inputs': exp_in, 'gates': nl['gates'], 'outputs': exp_out}
    if parsed.get_truth_table() != refsem.tt_rows(ref):
        raise Violation('layout_truth_table', 'parsed circuit computes something else than the text denotes')
    pr = wellformed.basic_problems(parsed)
    if pr:
        raise Violation('wellformed', '; '.join(pr[:3]))
    cls = gen.classify(nl) | _kw_classes(nl)
    cls.add('entry:' + entry)
    stored = [g[0] for g in got['gates']]
    pos = {l: i for i, l in enumerate(stored)}
    if any(pos[o] > pos[l] for l, _, ops in got['gates'] for o in ops):
        cls.add('use_before_definition')
    low = text.lower()
    if 'buff' in low:
        cls.add('alias_buff')
    if '= vdd' in low or '=vdd' in low or '=  vdd' in low:
        cls.add('alias_vdd')
    if '#' in text:
        cls.add('comment')
    if after_refusal:
        cls.add('after_refused_parse')
    nt = bool({'use_before_definition', 'alias_buff', 'alias_vdd'} & cls) or any(k.startswith('kw_') for k in cls)
    return {'nt': nt, 'cls': cls, 'sample': {'text': text}}


SPEC = {
    'id': 'C11',
    'rule': ('(a) Hypothesis circuits over all types/arities with identifier labels ([A-Za-z0-9_@], incl. labels that '
             'begin with input/output/vdd/buff/not/and in any case, on inputs, gates and outputs), built by storage-order '
             'varying routes: parse(format_circuit(c)) == c and from_bench_file(save_to_file(c)) == c (fresh file names, and one name per process overwritten again and again) incl. input/output '
             'order. (b) netlist + generated layout, parsed through from_bench_string / from_bench_file / the parser object fed lines with or without terminators (permuted declaration lines = use before definition, any letter case '
             'of INPUT/OUTPUT/operator names, BUFF/IFF, vdd alias, spaces around = , ( ), comment and blank lines, with or '
             'without final newline): parsed gate map, input order, output order and truth table equal the netlist the '
             'text was printed from. Non-trivial: keyword-prefixed label, use before definition or an alias present.'
             ' Added during the build: labels that ARE a keyword or operator name, texts of 33-260 gates and of 1000-3100 lines, n-ary gates with up to 13 operands, a text the parser has to refuse before the ordinary one, circuits whose inputs were fixed before writing, one file name overwritten again and again, the parser object fed line by line.'),
    'assumptions': ['only layout constructs the parser documents or its tests use are generated (no tabs, no leading blanks, no trailing comments)'],
    'subs': [Sub('roundtrip', rt_cases, check_roundtrip, {'quick': 2500, 'thorough': 200000}),
             Sub('layout', layout_cases, check_layout, {'quick': 2500, 'thorough': 200000})],
    'required_classes': {'roundtrip': ['kw_input_on_gate', 'kw_output_on_gate', 'kw_input_on_input', 'kw_on_output',
                                       'route:rename', 'via_file', 'via_file_same_path', 'nary>=3', 'constant',
                                       'long_text', 'long_text_via_file', 'after_refused_parse', 'inputs_fixed_before', 'lines>1024'],
                         'layout': ['use_before_definition', 'alias_buff', 'alias_vdd', 'comment', 'kw_input_on_gate',
                                    'entry:string', 'entry:file', 'entry:parser_lines', 'entry:parser_stripped']},
}
