"""Shared helpers of C07 / C08 / C09: hosts, row sampling, bit-sliced integer arithmetic on value vectors."""

from __future__ import annotations

import random

from hypothesis import strategies as st

from vlib import build, gen, refsem, wellformed
from vlib.env import cirbo_core
from vlib.runner import Violation

HOST_TYPES = list(refsem.NARY) * 2 + ['NOT', 'IFF', 'GT', 'LT', 'GEQ', 'LEQ', 'ALWAYS_TRUE', 'ALWAYS_FALSE']


@st.composite
def hosts(draw, *, min_inputs=1, max_inputs=5, max_gates=8, allow_empty=True):
    """A host circuit (netlist) whose gates will serve as operands."""
    nl = draw(gen.netlists(min_inputs=min_inputs, max_inputs=max_inputs, max_gates=max_gates, types=HOST_TYPES,
                           max_arity=3, styles=('plain', 'mixed'), max_outputs=3))
    if draw(st.integers(0, 2)) == 0:
        # a constant-zero (and sometimes a constant-one) gate to serve as operand bits: zero-extended and sparse numbers
        have = {g[0] for g in nl['gates']}
        extra = [[l, t, []] for l, t in (('zero_bit', 'ALWAYS_FALSE'), ('one_bit', 'ALWAYS_TRUE'))[:draw(st.integers(1, 2))] if l not in have]
        nl = dict(nl, gates=nl['gates'] + extra)
    return nl


def operand_picks(draw, count, *, allow_repeat=False):
    """Abstract operand choices (indices resolved against the host labels at check time)."""
    picks = {'idx': [draw(st.integers(0, 60)) for _ in range(count)], 'repeat': allow_repeat}
    if allow_repeat and count >= 2 and draw(st.integers(0, 3)) == 0:
        # a run of positions held by the host's constant-zero gate (if it has one): [start, length], taken modulo
        picks['zeros'] = [draw(st.integers(0, 30)), draw(st.integers(1, 5))]
    return picks


def resolve_operands(nl, picks, count=None):
    labs = [g[0] for g in nl['gates']]
    idx = picks['idx'] if count is None else picks['idx'][:count]
    out = []
    for i in idx:
        if picks['repeat']:
            out.append(labs[i % len(labs)])
        else:
            # distinct operands: walk forward to the next unused label
            k = i % len(labs)
            tries = 0
            while labs[k] in out and tries < len(labs):
                k = (k + 1) % len(labs)
                tries += 1
            if labs[k] in out:
                return None
            out.append(labs[k])
    if picks.get('absent_at') is not None and out:
        out[picks['absent_at'] % len(out)] = '__no_such_gate__'
    zero = next((g[0] for g in nl['gates'] if g[1] == 'ALWAYS_FALSE' and not g[2]), None)
    if picks.get('zeros') and picks['repeat'] and zero is not None and out:
        start, length = picks['zeros']
        for q in range(min(length, len(out) - 1)):
            out[(start + q) % len(out)] = zero
    return out


HAND_STYLES = ['list', 'list', 'tuple', 'iter']


def _declares_iterable(fn) -> bool:
    """True iff every label-collection parameter of `fn` is annotated as an Iterable (read from the code under test)."""
    import inspect

    try:
        params = inspect.signature(fn).parameters.values()
    except (TypeError, ValueError):
        return False
    anns = [str(p.annotation) for p in params if 'label' in p.name]
    return bool(anns) and all('Iterable' in a for a in anns)


def hand(labels, style, fn=None):
    """How the caller hands a number over: a private list, a tuple, or - only where the function under test itself
    declares tp.Iterable operands - a one-shot iterator."""
    if style == 'iter' and (fn is None or not _declares_iterable(fn)):
        style = 'tuple'
    if style == 'tuple':
        return tuple(labels)
    if style == 'iter':
        return iter(list(labels))
    return list(labels)


def fresh_inputs_host(n, prefix='x'):
    return {'inputs': [f'{prefix}{i}' for i in range(n)], 'gates': [[f'{prefix}{i}', 'INPUT', []] for i in range(n)],
            'outputs': []}


def rows_for(n_inputs, seed, sample_bits=11, corner_values=()):
    """Patterns for evaluation: exhaustive up to 14 inputs, else 2^sample_bits seeded rows incl. corners."""
    if n_inputs <= 14:
        pats, mask = refsem.full_patterns(n_inputs)
        return pats, mask, True
    W = 1 << sample_bits
    rnd = random.Random(seed)
    pats = [rnd.getrandbits(W) for _ in range(n_inputs)]
    mask = (1 << W) - 1
    # corner rows: all-zero, all-one, one-hot, plus caller supplied full assignments (tuples of bits per input)
    corners = [[0] * n_inputs, [1] * n_inputs]
    for i in range(min(n_inputs, 64)):
        corners.append([1 if j == i else 0 for j in range(n_inputs)])
        corners.append([0 if j == i else 1 for j in range(n_inputs)])
    corners += [list(c) for c in corner_values]
    for r, row in enumerate(corners[:W]):
        for i in range(n_inputs):
            if row[i]:
                pats[i] |= 1 << r
            else:
                pats[i] &= ~(1 << r)
    return pats, mask, False


def planes(terms):
    """Bit-sliced sum of terms [(weight, value_vector)] -> {bit position: vector} without zero planes."""
    acc: dict[int, int] = {}
    for w, v in terms:
        k, carry = w, v
        while carry:
            cur = acc.get(k, 0)
            acc[k] = cur ^ carry
            carry = cur & carry
            k += 1
    return {k: v for k, v in acc.items() if v}


def planes_mul(a_bits, b_bits):
    """Bit-sliced product of two unsigned numbers given as LSB-first lists of value vectors."""
    terms = []
    for i, a in enumerate(a_bits):
        for j, b in enumerate(b_bits):
            terms.append((i + j, a & b))
    return planes(terms)


def planes_of_number(bits):
    return {k: v for k, v in enumerate(bits) if v}


def first_diff_row(p, q):
    for k in set(p) | set(q):
        d = p.get(k, 0) ^ q.get(k, 0)
        if d:
            return (d & -d).bit_length() - 1, k
    return None


def host_discipline(host_nl, before_snap, circuit, t_before, pats, mask, *, outputs_may_grow=None):
    """Only fresh gates were added, pre-existing gates keep structure and function, interface untouched.
    Returns (result netlist, tables, fresh labels)."""
    res = refsem.from_circuit(circuit)
    old = {g[0]: g for g in host_nl['gates']}
    now = {g[0]: g for g in res['gates']}
    for lab, g in old.items():
        if lab not in now:
            raise Violation('host_gate_removed', f'pre-existing gate {lab} disappeared')
        if now[lab][1] != g[1] or list(now[lab][2]) != list(g[2]):
            raise Violation('host_gate_changed', f'pre-existing gate {lab}: {g} -> {now[lab]}')
    if res['inputs'] != host_nl['inputs']:
        raise Violation('host_inputs_changed', f'inputs {host_nl["inputs"]} -> {res["inputs"]}')
    if outputs_may_grow is None:
        if res['outputs'] != host_nl['outputs']:
            raise Violation('host_outputs_changed', f'outputs {host_nl["outputs"]} -> {res["outputs"]}')
    try:
        t = refsem.tables(res, pats, mask)
    except (refsem.ArityError, ValueError, KeyError) as e:
        raise Violation('result_malformed', f'{type(e).__name__}: {e}')
    for lab in old:
        if t[lab] != t_before[lab]:
            raise Violation('host_function_changed', f'pre-existing gate {lab} changed its function')
    fresh = [l for l in now if l not in old]
    pr = wellformed.basic_problems(circuit)
    if pr:
        raise Violation('wellformed', '; '.join(pr[:3]))
    return res, t, fresh


def basis_spellings():
    return st.sampled_from([('XAIG', 'enum'), ('AIG', 'enum'), ('XAIG', 'XAIG'), ('AIG', 'AIG'), ('AIG', 'aig'),
                            ('XAIG', 'xaig'), ('AIG', 'Aig')])


def basis_arg(spelling):
    from cirbo.synthesis.generation.helpers import GenerationBasis

    name, form = spelling
    if form == 'enum':
        return GenerationBasis.AIG if name == 'AIG' else GenerationBasis.XAIG
    return form


def check_basis(res_nl, fresh, basis_name):
    typ = {g[0]: (g[1], g[2]) for g in res_nl['gates']}
    for lab in fresh:
        ty, ops = typ[lab]
        if ty == 'INPUT':
            continue
        if len(ops) != 2 and ty not in ('NOT', 'IFF', 'ALWAYS_TRUE', 'ALWAYS_FALSE'):
            raise Violation('basis_arity', f'fresh gate {lab} = {ty}{ops} is not a two-input gate')
        if basis_name == 'AIG' and ty in ('XOR', 'NXOR'):
            raise Violation('basis_violated', f'fresh gate {lab} is {ty} although basis AIG was requested')


def with_label_collisions(inner, every=6):
    """Wraps a check on a host circuit: one case in `every` is run twice.  The first run shows which labels the library
    gave to the gates it added; the second run uses the same host with some of its gates RENAMED to exactly those labels
    (label generation is seeded per case, so the library will come up with them again) and to their successors where they
    end in a number (what a sequential naming scheme would hand out next).  'Only fresh gates are added and existing gates
    keep their function' is about any host - also one that was produced by this library in an earlier session."""
    import re

    from vlib import build as _build

    def check(case):
        host = case.get('host')
        if not host or case.get('uuid_seed', 1) % every or not host.get('gates'):
            return inner(case)
        _build.LAST[0] = None
        info = inner(case)
        c = _build.LAST[0]
        if c is None:
            return info
        have = {g[0] for g in host['gates']}
        # (labels that the check itself asked for - explicit result labels - are the caller's, not the library's)
        new = [l for l in c.gates if l not in have and not l.startswith(('res_', 'res', 'all_equal'))]
        if not new:
            return info
        pred = list(new[:2])
        tops: dict[str, int] = {}
        for l in new:
            m = re.match(r'^(.*?)(\d{1,9})$', l)
            if m:
                tops[m.group(1)] = max(tops.get(m.group(1), -1), int(m.group(2)))
        for pre, top in tops.items():
            pred += [f'{pre}{top + j}' for j in (1, 2, 3, 5)]
        pred = [l for l in dict.fromkeys(pred) if l not in have][:6]
        victims = [g[0] for g in host['gates']][::-1][:len(pred)]
        ren = dict(zip(victims, pred))
        r = lambda x: ren.get(x, x)
        host2 = dict(host, inputs=[r(x) for x in host['inputs']], outputs=[r(x) for x in host['outputs']],
                     gates=[[r(l), t, [r(o) for o in ops]] for l, t, ops in host['gates']])
        info2 = inner(dict(case, host=host2))
        info2.setdefault('cls', set()).add('host_holds_predicted_labels')
        return info2

    return check


def spoil(circ):
    """What the owner of a generated circuit may do with it: add a gate on top, keep only that as output."""
    core = cirbo_core()
    labs = list(circ.gates)
    if labs:
        circ.emplace_gate('__owner_added__', core.gate.NOT, (labs[-1],))
        circ.set_outputs(['__owner_added__'])
    else:
        circ.emplace_gate('__owner_added__', core.gate.ALWAYS_TRUE, ())
        circ.set_outputs(['__owner_added__'])


def fresh(call, again):
    """call() -> a generated circuit.  With `again` the call is made twice and the first result is changed by its owner in
    between: a generator hands out a new circuit every time it is asked."""
    if again:
        try:
            spoil(call())
        except Exception:  # noqa  (the first call is not the subject; the second one is checked in full)
            pass
    return call()


def with_refused_prelude(inner, every=5):
    """Wraps a check on a host circuit: one case in `every` is preceded by the same call with ONE operand label that
    does not exist - a call the library has to refuse (whatever it answers is ignored here, it runs on a host of its
    own).  The call that follows is an ordinary one and is checked in full: what a refused call leaves behind in the
    process (class-level or module-level state) must not reach it."""
    import copy

    def check(case):
        if case.get('host') and (case.get('uuid_seed', 0) // 7) % every == 0:
            bad = copy.deepcopy(case)
            keys = [k for k in ('b', 'a', 'ops', 'p2', 'p1') if isinstance(bad.get(k), dict) and 'idx' in bad[k]]
            if keys:
                bad[keys[0]]['absent_at'] = 1 + bad.get('uuid_seed', 0) % 5
                bad['alias'] = None
                try:
                    inner(bad)
                except BaseException as e:  # noqa
                    if isinstance(e, KeyboardInterrupt):
                        raise
                info = inner(case)
                info.setdefault('cls', set()).add('after_refused_call')
                return info
        return inner(case)

    return check
