"""C13 - a miter is true exactly where the two circuits differ."""

from __future__ import annotations

from hypothesis import strategies as st

from vlib import build, gen, refsem, wellformed
from vlib.env import cirbo_core
from vlib.runner import Sub, Violation

BIN_SWAP = {'AND': 'OR', 'OR': 'XOR', 'XOR': 'NXOR', 'NAND': 'AND', 'NOR': 'NAND', 'NXOR': 'OR',
            'GT': 'LT', 'LT': 'GEQ', 'GEQ': 'LEQ', 'LEQ': 'GT', 'LIFF': 'RIFF', 'RIFF': 'LNOT',
            'LNOT': 'RNOT', 'RNOT': 'LIFF', 'NOT': 'IFF', 'IFF': 'NOT',
            'ALWAYS_TRUE': 'ALWAYS_FALSE', 'ALWAYS_FALSE': 'ALWAYS_TRUE'}


def _relabel(nl, f):
    return {'inputs': [f(x) for x in nl['inputs']],
            'gates': [[f(l), t, [f(o) for o in ops]] for l, t, ops in nl['gates']],
            'outputs': [f(x) for x in nl['outputs']], 'style': nl.get('style')}


@st.composite
def cases(draw, tier):
    big = tier == 'thorough'
    left = draw(gen.netlists(min_inputs=0, max_inputs=6 if big else 5, max_gates=18 if big else 12,
                             min_outputs=1, max_outputs=4, styles=('plain', 'digits', 'mixed'),
                             const_operands=(0, 0, 2)))
    if not left['gates']:
        left = {'inputs': [], 'gates': [['k', 'ALWAYS_TRUE', []]], 'outputs': ['k'], 'style': 'plain'}
    if not left['outputs']:
        left['outputs'] = [left['gates'][-1][0]]
    mode = draw(st.sampled_from(['mutant', 'mutant', 'independent', 'same', 'shape_mismatch']))
    if mode in ('mutant', 'same') and draw(st.integers(0, 7)) == 0:
        # very many outputs (the same few gates listed again and again): counts beyond 256
        labs = [g[0] for g in left['gates']]
        many = draw(st.sampled_from([256, 257, 300, 17, 20, 33, 40, 65, 100]))
        k0 = draw(st.integers(0, 40))
        left = dict(left, outputs=[labs[(k0 + q * (1 + q % 3)) % len(labs)] for q in range(many)])
    n, m = len(left['inputs']), len(left['outputs'])
    if mode in ('mutant', 'same'):
        right = {'inputs': list(left['inputs']), 'gates': [list(g) for g in left['gates']],
                 'outputs': list(left['outputs']), 'style': left['style']}
        if mode == 'mutant' and m > 4 and draw(st.booleans()):
            # the two sides differ at ONE output position only (first, last or somewhere)
            pos = draw(st.sampled_from([m - 1, m - 1, 0, draw(st.integers(0, m - 1))]))
            flip = '__flip__'
            while any(g[0] == flip for g in right['gates']):
                flip += '_'
            right['gates'].append([flip, 'NOT', [right['outputs'][pos]]])
            right['outputs'][pos] = flip
        elif mode == 'mutant':
            cand = [i for i, g in enumerate(right['gates']) if g[1] != 'INPUT']
            if cand:
                i = cand[draw(st.integers(0, len(cand) - 1))]
                right['gates'][i] = [right['gates'][i][0], BIN_SWAP[right['gates'][i][1]], right['gates'][i][2]]
        lab_mode = draw(st.sampled_from(['identical', 'disjoint', 'overlap']))
        if lab_mode == 'disjoint':
            right = _relabel(right, lambda s: 'r_' + s)
        elif lab_mode == 'overlap':
            right = _relabel(right, lambda s: s if (sum(map(ord, s)) % 2) else 'r_' + s)
    elif mode == 'independent':
        right = draw(gen.netlists(min_inputs=n, max_inputs=n, max_gates=12, min_outputs=m, max_outputs=m,
                                  styles=('plain', 'digits', 'mixed')))
        if len(right['outputs']) != m:  # no gates and no inputs at all
            right = {'inputs': [], 'gates': [['k', 'ALWAYS_FALSE', []]], 'outputs': ['k'] * m, 'style': 'plain'}
    else:
        dn = draw(st.sampled_from([(1, 0), (0, 1), (1, 1)]))
        right = draw(gen.netlists(min_inputs=n + dn[0], max_inputs=n + dn[0], max_gates=8,
                                  min_outputs=m + dn[1], max_outputs=m + dn[1], styles=('plain',)))
        if len(right['inputs']) == n and len(right['outputs']) == m:
            mode = 'independent'
    names = draw(st.sampled_from([None, None, ('L', 'R'), ('a_b', 'circuit1'), ('circuit2', 'circuit1'), (None, 'R'), ('L', None)]))
    # what the process did before: nothing, or it obtained the library's pairwise-xor gadget of the same width for its own
    # use and rebuilt it (callers own what generate_* returns)
    prelude = draw(st.sampled_from([None, None, None, 'own_pairwise_xor']))
    return {'left': left, 'right': right, 'mode': mode, 'names': names, 'prelude': prelude,
            # a circuit compared with itself: one and the same object on both sides
            'same_object': mode == 'same' and draw(st.booleans()),
            'lroute': draw(gen.routes(left)), 'rroute': draw(gen.routes(right))}


def check_miter(case):
    core = cirbo_core()
    from cirbo.sat import build_miter, is_circuit_satisfiable
    from cirbo.sat.exceptions import MiterDifferentShapesError

    L, R = case['left'], case['right']
    cl, cr = build.build(L, case['lroute']), build.build(R, case['rroute'])
    if case.get('same_object') and L == R:
        cr = cl
    sl, sr = wellformed.snapshot(cl), wellformed.snapshot(cr)
    kw = {}
    if case['names']:
        kw = {k: v for k, v in (('left_name', case['names'][0]), ('right_name', case['names'][1])) if v is not None}
    n, m = len(L['inputs']), len(L['outputs'])
    if case.get('prelude') == 'own_pairwise_xor' and m >= 1:
        try:
            from cirbo.synthesis.generation import generate_pairwise_xor
        except ImportError:
            generate_pairwise_xor = None
        if generate_pairwise_xor is not None:
            own = generate_pairwise_xor(m)
            own.emplace_gate('all_equal', core.gate.NOR if m > 1 else core.gate.NOT, tuple(own.outputs))
            own.set_outputs(['all_equal'])
    if len(R['inputs']) != n or len(R['outputs']) != m:
        try:
            build_miter(cl, cr, **kw)
        except MiterDifferentShapesError:
            return {'nt': False, 'cls': {'shape_mismatch'}}
        raise Violation('shape_not_rejected', f'shapes ({n},{m}) vs ({len(R["inputs"])},{len(R["outputs"])}) accepted')
    miter = build_miter(cl, cr, **kw)
    if wellformed.snapshot(cl) != sl or wellformed.snapshot(cr) != sr:
        raise Violation('operand_modified', 'build_miter modified one of its operands')
    if miter.input_size != n:
        raise Violation('inputs', f'miter has {miter.input_size} inputs, left circuit has {n}')
    if miter.output_size != 1:
        raise Violation('outputs', f'miter has {miter.output_size} outputs')
    # (the order of the miter inputs is checked semantically below: input k of the miter is fed with left input k)
    tl, tr = refsem.out_tables(L), refsem.out_tables(R)
    diff = 0
    for a, b in zip(tl, tr):
        diff |= a ^ b
    W = 1 << n
    mnl = refsem.from_circuit(miter)
    try:
        mt = refsem.out_tables(mnl)[0]
    except refsem.ArityError as e:
        raise Violation('miter_malformed', f'miter netlist is ill-formed: {e}')
    if mt != diff:
        raise Violation('miter_function', f'miter table {mt:0{W}b} != difference table {diff:0{W}b} (reference evaluation of the miter netlist)')
    for j in range(W):
        x = [bool((j >> (n - 1 - i)) & 1) for i in range(n)]
        got = miter.evaluate(x)
        if got != [bool((diff >> j) & 1)]:
            raise Violation('miter_evaluate', f'row {x}: miter evaluates to {got}, circuits differ: {bool((diff >> j) & 1)}')
    ans = is_circuit_satisfiable(miter).answer
    if bool(ans) != (diff != 0):
        raise Violation('miter_sat', f'satisfiable={ans} but circuits {"differ" if diff else "are equivalent"}')
    pr = wellformed.problems(miter)
    if pr:
        raise Violation('wellformed', '; '.join(pr[:3]))
    cls = {'mode:' + case['mode'], f'm={min(m, 3)}{"+" if m > 3 else ""}'} | ({'outputs>256'} if m > 256 else set()) | ({'outputs>16'} if m > 16 else set())
    if case.get('prelude'):
        cls.add('prelude:' + case['prelude'])
    if cr is cl:
        cls.add('same_object_twice')
    if set(g[0] for g in L['gates']) & set(g[0] for g in R['gates']):
        cls.add('shared_labels')
    typl = {g[0]: g[1] for g in L['gates']}
    if any(typl[o] == 'INPUT' for o in L['outputs']):
        cls.add('output_is_input')
    if len(set(L['outputs'])) < m:
        cls.add('dup_output')
    if n == 0:
        cls.add('zero_inputs')
    full = (1 << W) - 1
    return {'nt': diff not in (0, full), 'cls': cls,
            'sample': {'left': build.bench_text(L), 'right': build.bench_text(R), 'names': case['names']}}


SPEC = {
    'id': 'C13',
    'rule': ('Pairs of Hypothesis netlists of equal shape (0-6 inputs, 1-4 outputs; right = mutant of left / '
             'independent / identical; identical, overlapping or disjoint label sets; outputs that are inputs '
             'or repeated; custom block names incl. only one of the two given and the two defaults swapped) and shape-mismatched pairs. Oracle: row-wise left(x) != right(x) '
             'from the reference tables, compared with the miter through cirbo evaluate (all 2^n rows), the '
             'reference evaluation of the miter netlist, and is_circuit_satisfiable; operand snapshots; '
             'wellformed(miter). Non-trivial: the circuits differ on some but not all rows.'
             ' Added during the build: operands listing 17-300 outputs (also differing at one position only), zero-input operands, one object on both sides, name variants incl. library-looking ones, a rebuilt pairwise-xor gadget in the same process.'),
    'assumptions': ['pysat stand-in (z3) decides the miter CNF'],
    'subs': [Sub('miter', cases, check_miter, {'quick': 2500, 'thorough': 150000})],
    'required_classes': {'miter': ['m=1', 'm=2', 'shared_labels', 'output_is_input', 'dup_output',
                                   'shape_mismatch', 'mode:mutant', 'mode:independent', 'outputs>256', 'outputs>16']},
}
