"""C12 - all function representations answer every protocol query alike and correctly."""

from __future__ import annotations

import itertools

from hypothesis import strategies as st

from vlib import build, gen, refsem
from vlib.env import cirbo_core
from vlib.runner import Sub, Violation


# ---------------------------------------------------------------------------
# definitions computed from the raw table (cols[i] = int, bit j = value of output i on row j;
# row j <-> inputs = big-endian bits of j, input k = bit (n-1-k) of j)


def col_bits(col, n):
    return [bool((col >> j) & 1) for j in range(1 << n)]


def d_constant(col, n):
    return col == 0 or col == (1 << (1 << n)) - 1


def d_monotone(col, n, inverse):
    b = col_bits(col, n)
    if inverse:
        return all(not (b[j + 1] and not b[j]) for j in range(len(b) - 1))
    return all(not (b[j] and not b[j + 1]) for j in range(len(b) - 1))


def d_symmetric(cols, n, neg=0):
    for col in cols:
        seen = {}
        for y in range(1 << n):
            w = bin(y).count('1')
            v = (col >> (y ^ neg)) & 1
            if seen.setdefault(w, v) != v:
                return False
    return True


def d_dependent(col, n, k):
    bit = 1 << (n - 1 - k)
    return any(((col >> j) & 1) != ((col >> (j ^ bit)) & 1) for j in range(1 << n))


def d_equal_input(col, n, k, negate):
    pats, mask = refsem.full_patterns(n)
    return col == (pats[k] ^ mask if negate else pats[k])


def neg_to_int(neg, n):
    r = 0
    for k, b in enumerate(neg):
        if b:
            r |= 1 << (n - 1 - k)
    return r


# ---------------------------------------------------------------------------
# representations


def dnf_netlist(n, cols):
    """Own Shannon/DNF builder: a circuit computing the given table."""
    gates = [[f'x{i}', 'INPUT', []] for i in range(n)]
    gates += [[f'nx{i}', 'NOT', [f'x{i}']] for i in range(n)]
    outs = []
    for oi, col in enumerate(cols):
        minterms = []
        for j in range(1 << n):
            if (col >> j) & 1:
                lits = [f'x{i}' if (j >> (n - 1 - i)) & 1 else f'nx{i}' for i in range(n)]
                if n == 0:
                    lab = f'm{oi}_{j}'
                    gates.append([lab, 'ALWAYS_TRUE', []])
                    minterms.append(lab)
                elif n == 1:
                    minterms.append(lits[0])
                else:
                    lab = f'm{oi}_{j}'
                    gates.append([lab, 'AND', lits])
                    minterms.append(lab)
        if not minterms:
            gates.append([f'o{oi}', 'ALWAYS_FALSE', []])
        elif len(minterms) == 1:
            gates.append([f'o{oi}', 'IFF', [minterms[0]]])
        else:
            gates.append([f'o{oi}', 'OR', minterms])
        outs.append(f'o{oi}')
    return {'inputs': [f'x{i}' for i in range(n)], 'gates': gates, 'outputs': outs}


def make_reps(n, cols, with_circuit=True, extra_circuit=None):
    core = cirbo_core()
    from cirbo.core.python_function import PyFunction
    from cirbo.core.truth_table import TruthTable

    table = [col_bits(c, n) for c in cols]
    m = len(cols)

    def f(args):
        j = 0
        for a in args:
            j = (j << 1) | (1 if a else 0)
        return [bool((c >> j) & 1) for c in cols]

    params = ', '.join(f'a{i}' for i in range(n))
    fpos = eval(f'lambda {params}: f([{params}])', {'f': f})
    reps = {
        'TruthTable': TruthTable(table),
        'TruthTable(str)': TruthTable([''.join('1' if b else '0' for b in row) for row in table]),
        'PyFunction': PyFunction(f, input_size=n),
        'PyFunction.from_positional': PyFunction.from_positional(fpos),
        # a callable may answer with any sequence of bools
        'PyFunction(tuple)': PyFunction(lambda args: tuple(f(args)), input_size=n),
    }
    if with_circuit:
        reps['Circuit(dnf)'] = build.build(dnf_netlist(n, cols))
    if extra_circuit is not None:
        reps['Circuit(netlist)'] = extra_circuit
    return reps


def subsets_for(m, budget):
    allsub = []
    for r in range(1, m + 1):
        allsub += [list(c) for c in itertools.combinations(range(m), r)]
    extra = []
    if m >= 2:
        extra = [[m - 1, 0], [0, 0]]
    return (allsub + extra)[:budget]


def check_function(n, cols, reps, sets_budget=8):
    """Compare every representation with the definitions. Raises Violation."""
    core = cirbo_core()
    from cirbo.core.exceptions import BadDefinitionError

    m = len(cols)
    rows = [[bool((j >> (n - 1 - i)) & 1) for i in range(n)] for j in range(1 << n)]
    table = [col_bits(c, n) for c in cols]
    exp = {}
    exp['input_size'], exp['output_size'] = n, m
    exp['get_truth_table'] = table
    exp['is_constant'] = all(d_constant(c, n) for c in cols)
    exp['is_symmetric'] = d_symmetric(cols, n)
    for inv in (False, True):
        exp[f'is_monotone({inv})'] = all(d_monotone(c, n, inv) for c in cols)
    for i, c in enumerate(cols):
        exp[f'is_constant_at({i})'] = d_constant(c, n)
        exp[f'is_symmetric_at({i})'] = d_symmetric([c], n)
        for inv in (False, True):
            exp[f'is_monotone_at({i},{inv})'] = d_monotone(c, n, inv)
        for k in range(n):
            exp[f'is_dependent_on_input_at({i},{k})'] = d_dependent(c, n, k)
            exp[f'is_output_equal_to_input({i},{k})'] = d_equal_input(c, n, k, False)
            exp[f'is_output_equal_to_input_negation({i},{k})'] = d_equal_input(c, n, k, True)
        exp[f'get_significant_inputs_of({i})'] = [k for k in range(n) if d_dependent(c, n, k)]
    sets = subsets_for(m, sets_budget)
    answers = {}
    for name, r in reps.items():
        got = {}
        got['input_size'], got['output_size'] = r.input_size, r.output_size
        got['get_truth_table'] = [list(map(bool, row)) for row in r.get_truth_table()]
        got['is_constant'] = r.is_constant()
        got['is_symmetric'] = r.is_symmetric()
        for inv in (False, True):
            got[f'is_monotone({inv})'] = r.is_monotone(inverse=inv)
        if r.is_monotone() is not got['is_monotone(False)']:
            raise Violation('default_argument', f'{name}.is_monotone() differs from is_monotone(inverse=False)')
        for i in range(m):
            got[f'is_constant_at({i})'] = r.is_constant_at(i)
            got[f'is_symmetric_at({i})'] = r.is_symmetric_at(i)
            for inv in (False, True):
                got[f'is_monotone_at({i},{inv})'] = r.is_monotone_at(i, inverse=inv)
            for k in range(n):
                got[f'is_dependent_on_input_at({i},{k})'] = r.is_dependent_on_input_at(i, k)
                got[f'is_output_equal_to_input({i},{k})'] = r.is_output_equal_to_input(i, k)
                got[f'is_output_equal_to_input_negation({i},{k})'] = r.is_output_equal_to_input_negation(i, k)
            got[f'get_significant_inputs_of({i})'] = list(r.get_significant_inputs_of(i))
        for key, e in exp.items():
            if got[key] != e or type(got[key]) is not type(e):
                raise Violation(f'query:{key.split("(")[0]}',
                                f'{name}.{key} = {got[key]!r}, definition gives {e!r} for table '
                                f'{["".join("1" if b else "0" for b in row) for row in table]}')
        for j, x in enumerate(rows):
            ev = list(r.evaluate(list(x)))
            if [bool(v) for v in ev] != [row[j] for row in table] or any(not isinstance(v, bool) for v in ev):
                raise Violation('query:evaluate', f'{name}.evaluate({x}) = {ev}')
            if list(r.check(list(x))) != ev:
                raise Violation('query:check', f'{name}.check({x}) != evaluate')
            for i in range(m):
                if r.evaluate_at(list(x), i) is not table[i][j]:
                    raise Violation('query:evaluate_at', f'{name}.evaluate_at({x},{i})')
                if r.check_at(list(x), i) is not table[i][j]:
                    raise Violation('query:check_at', f'{name}.check_at({x},{i})')
        mt = [list(row) for row in r.get_model_truth_table()]
        if mt != table:
            raise Violation('query:get_model_truth_table', f'{name}: {mt}')
        if r.define({}) is not r and [list(x) for x in r.define({}).get_truth_table()] != table:
            raise Violation('query:define', f'{name}.define({{}}) changed the function')
        try:
            r.define({((False,) * n, 0): True})
        except BadDefinitionError:
            pass
        else:
            raise Violation('query:define', f'{name}.define(non-empty) on a fully defined function did not raise')
        neg = {}
        for S in sets:
            v = r.find_negations_to_make_symmetric(list(S))
            exists = [w for w in range(1 << n) if d_symmetric([cols[i] for i in S], n, w)]
            if v is None:
                if exists:
                    raise Violation('query:find_negations', f'{name}: None for outputs {S} but negations {exists[0]:0{n}b} work')
            else:
                if len(v) != n or not d_symmetric([cols[i] for i in S], n, neg_to_int(v, n)):
                    raise Violation('query:find_negations', f'{name}: returned {v} for outputs {S} does not make them symmetric')
            neg[tuple(S)] = v
        got['neg'] = neg
        answers[name] = got
    names = list(answers)
    for a in names[1:]:
        if answers[a] != answers[names[0]]:
            diff = [k for k in answers[a] if answers[a][k] != answers[names[0]][k]]
            raise Violation('representations_disagree', f'{names[0]} vs {a} on {diff[:3]}')
    return len(exp) * len(reps)


# ---------------------------------------------------------------------------
# finite sweep (sharded over the workers)


def small_functions(tier, seed):
    """(n, cols) for all functions with n<=2 (incl. the constants n=0), m<=2 and n=3, m=1 (quick: seeded half of the last)."""
    out = []
    for n in (0, 1, 2):
        size = 1 << (1 << n)
        for m in (1, 2):
            for cols in itertools.product(range(size), repeat=m):
                out.append((n, list(cols)))
    n3 = list(range(256))
    if tier == 'quick':
        import random

        rnd = random.Random(seed)
        n3 = sorted(rnd.sample(n3, 128))
    out += [(3, [c]) for c in n3]
    return out


def sweep(tier, shard, nshards, seed):
    funcs = small_functions(tier, seed)
    done = nontrivial = queries = declined = 0
    for idx, (n, cols) in enumerate(funcs):
        if idx % nshards != shard:
            continue
        try:
            if n == 0:
                # a library may decline to build a function without inputs at all; what it does build it must answer for
                try:
                    reps = make_reps(n, cols)
                except Exception:  # noqa
                    declined += 1
                    continue
            else:
                reps = make_reps(n, cols)
            queries += check_function(n, cols, reps, sets_budget=8)
        except Violation as v:
            v.case = {'n': n, 'cols': cols}
            raise
        except BaseException as e:  # noqa
            e.case = {'n': n, 'cols': cols}
            raise
        done += 1
        if not all(d_constant(c, n) for c in cols):
            nontrivial += 1
    return {'evaluations': done, 'distinct_nontrivial': nontrivial, 'exhaustive': tier == 'thorough',
            'counters': {'queries_compared': queries, 'zero_input_functions_declined_at_construction': declined},
            'samples': [{'n': n, 'cols': cols} for n, cols in funcs[shard::nshards][:1]]}


def replay_sweep(case):
    if case['n'] == 0:
        try:
            reps = make_reps(0, case['cols'])
        except Exception:  # noqa  (declined at construction: nothing to answer for)
            return
    else:
        reps = make_reps(case['n'], case['cols'])
    check_function(case['n'], case['cols'], reps)


# ---------------------------------------------------------------------------
# sampled larger functions, netlist circuits, models, integer wrappers, utilities


@st.composite
def func_cases(draw, tier):
    n = draw(st.sampled_from([3, 3, 4, 4, 5] if tier == 'thorough' else [3, 3, 4, 4]))
    m = draw(st.integers(1, 3))
    W = 1 << n
    kind = draw(st.sampled_from(['random', 'random', 'symmetric', 'threshold', 'input_like']))
    cols = []
    for _ in range(m):
        if kind == 'random':
            cols.append(draw(st.integers(0, (1 << W) - 1)))
        elif kind == 'symmetric':
            prof = draw(st.integers(0, (1 << (n + 1)) - 1))
            neg = draw(st.integers(0, W - 1))
            c = 0
            for j in range(W):
                if (prof >> bin(j ^ neg).count('1')) & 1:
                    c |= 1 << j
            cols.append(c)
        elif kind == 'threshold':
            t = draw(st.integers(0, W))
            c = ((1 << W) - 1) ^ ((1 << t) - 1)
            if draw(st.booleans()):
                c ^= (1 << W) - 1
            cols.append(c)
        else:
            pats, mask = refsem.full_patterns(n)
            c = pats[draw(st.integers(0, n - 1))]
            cols.append(c ^ mask if draw(st.booleans()) else c)
    return {'n': n, 'cols': cols, 'kind': kind}


def check_sampled(case):
    n, cols = case['n'], case['cols']
    check_function(n, cols, make_reps(n, cols, with_circuit=(n <= 4)), sets_budget=4 if n >= 4 else 8)
    nt = not all(d_constant(c, n) for c in cols)
    return {'nt': nt, 'cls': {f'n={n}', f'm={len(cols)}', 'kind:' + case['kind']}, 'key': [n, cols]}


@st.composite
def wide_cases(draw, tier):
    """Functions of 6-9 (thorough: 10) inputs with structure: what a column does may show only in the upper rows, only
    for some inputs, only beyond the first machine word of a packed table."""
    n = draw(st.sampled_from([6, 7, 7, 8, 8, 9] if tier != 'thorough' else [6, 7, 7, 8, 8, 9, 9, 10]))
    W = 1 << n
    full = (1 << W) - 1
    pats, mask = refsem.full_patterns(n)
    cols = []
    kinds = []
    for _ in range(draw(st.integers(1, 2))):
        kind = draw(st.sampled_from(['gate_fold', 'gate_fold', 'gated', 'gated', 'upper_rows', 'threshold', 'random', 'input_like']))
        kinds.append(kind)
        if kind in ('gate_fold', 'gated'):
            sub = sorted({draw(st.integers(0, n - 1)) for _ in range(draw(st.integers(2, n)))})
            op = draw(st.sampled_from(['and', 'or', 'xor']))
            c = full if op == 'and' else 0
            for k in sub:
                lit = pats[k] ^ (mask if draw(st.integers(0, 3)) == 0 else 0)
                c = (c & lit) if op == 'and' else (c | lit) if op == 'or' else (c ^ lit)
            if kind == 'gated':
                c &= pats[draw(st.integers(0, n - 1))]
        elif kind == 'upper_rows':
            # zero on the lower part of the table, arbitrary above
            cut = draw(st.sampled_from([W // 2, W // 2, W - W // 4, 64 if W > 64 else W // 2]))
            c = (draw(st.integers(0, (1 << (W - cut)) - 1)) << cut) & full
            if draw(st.booleans()):
                c ^= full
        elif kind == 'threshold':
            t = draw(st.integers(0, W))
            c = full ^ ((1 << t) - 1)
        elif kind == 'input_like':
            c = pats[draw(st.integers(0, n - 1))] ^ (mask if draw(st.booleans()) else 0)
        else:
            c = draw(st.integers(0, full))
        cols.append(c & full)
    return {'n': n, 'cols': cols, 'kinds': kinds, 'rows': [draw(st.integers(0, W - 1)) for _ in range(6)]}


def check_wide(case):
    cirbo_core()
    from cirbo.core.python_function import PyFunction
    from cirbo.core.truth_table import TruthTable

    n, cols = case['n'], case['cols']
    m = len(cols)
    table = [col_bits(c, n) for c in cols]

    def f(args):
        j = 0
        for a in args:
            j = (j << 1) | (1 if a else 0)
        return [bool((c >> j) & 1) for c in cols]

    reps = {'TruthTable': TruthTable(table), 'TruthTable(str)': TruthTable([''.join('1' if b else '0' for b in row) for row in table])}
    if n <= 8:
        reps['PyFunction'] = PyFunction(f, input_size=n)
    exp = {'is_constant': all(d_constant(c, n) for c in cols)}
    for i, c in enumerate(cols):
        exp[f'is_constant_at({i})'] = d_constant(c, n)
        for inv in (False, True):
            exp[f'is_monotone_at({i},{inv})'] = d_monotone(c, n, inv)
        for k in range(n):
            exp[f'is_dependent_on_input_at({i},{k})'] = d_dependent(c, n, k)
            exp[f'is_output_equal_to_input({i},{k})'] = d_equal_input(c, n, k, False)
            exp[f'is_output_equal_to_input_negation({i},{k})'] = d_equal_input(c, n, k, True)
        exp[f'get_significant_inputs_of({i})'] = [k for k in range(n) if d_dependent(c, n, k)]
    for name, r in reps.items():
        got = {'is_constant': r.is_constant()}
        for i in range(m):
            got[f'is_constant_at({i})'] = r.is_constant_at(i)
            for inv in (False, True):
                got[f'is_monotone_at({i},{inv})'] = r.is_monotone_at(i, inverse=inv)
            for k in range(n):
                got[f'is_dependent_on_input_at({i},{k})'] = r.is_dependent_on_input_at(i, k)
                got[f'is_output_equal_to_input({i},{k})'] = r.is_output_equal_to_input(i, k)
                got[f'is_output_equal_to_input_negation({i},{k})'] = r.is_output_equal_to_input_negation(i, k)
            got[f'get_significant_inputs_of({i})'] = list(r.get_significant_inputs_of(i))
        for key, e in exp.items():
            if got[key] != e or type(got[key]) is not type(e):
                raise Violation(f'query:{key.split("(")[0]}', f'{name}.{key} = {got[key]!r}, definition gives {e!r} (n={n}, column kinds {case["kinds"]})')
        if [list(map(bool, row)) for row in r.get_truth_table()] != table:
            raise Violation('query:get_truth_table', f'{name}: table differs (n={n})')
        for j in case['rows']:
            x = [bool((j >> (n - 1 - i)) & 1) for i in range(n)]
            if [bool(v) for v in r.evaluate(x)] != [row[j] for row in table]:
                raise Violation('query:evaluate', f'{name}.evaluate(row {j}) (n={n})')
    return {'nt': not all(d_constant(c, n) for c in cols), 'cls': {f'n={n}'} | {'kind:' + k for k in case['kinds']}, 'key': [n, cols]}


@st.composite
def netlist_cases(draw, tier):
    nl = draw(gen.netlists(min_inputs=1, max_inputs=4, max_gates=14, max_arity=4, min_outputs=1, max_outputs=3,
                           styles=('plain', 'mixed'), const_operands=(0, 0, 1, 2, 3)))
    if not nl['outputs']:
        nl['outputs'] = [nl['gates'][-1][0]]
    return {'nl': nl, 'route': draw(gen.routes(nl))}


def check_netlist(case):
    nl = case['nl']
    n = len(nl['inputs'])
    cols = refsem.out_tables(nl)
    c = build.build(nl, case['route'])
    reps = make_reps(n, cols, with_circuit=False, extra_circuit=c)
    check_function(n, cols, reps, sets_budget=4)
    return {'nt': not all(d_constant(x, n) for x in cols), 'cls': gen.classify(nl) | {f'n={n}'},
            'sample': {'bench': build.bench_text(nl)}}


@st.composite
def model_cases(draw, tier):
    n = draw(st.integers(1, 4))
    m = draw(st.integers(1, 3))
    W = 1 << n
    cols = [draw(st.integers(0, (1 << W) - 1)) for _ in range(m)]
    dc_kind = draw(st.sampled_from(['cells', 'cells', 'column', 'row', 'all', 'none']))
    dcs = []
    for i in range(m):
        if dc_kind == 'cells':
            dcs.append(draw(st.integers(0, (1 << W) - 1)))
        elif dc_kind == 'column':
            dcs.append((1 << W) - 1 if i == 0 else draw(st.integers(0, (1 << W) - 1)))
        elif dc_kind == 'row':
            dcs.append(1 << draw(st.integers(0, W - 1)) if i else 1)
        elif dc_kind == 'all':
            dcs.append((1 << W) - 1)
        else:
            dcs.append(0)
    fill = [draw(st.integers(0, (1 << W) - 1)) for _ in range(m)]
    return {'n': n, 'cols': cols, 'dcs': dcs, 'fill': fill, 'incomplete': draw(st.integers(0, 3)) == 0,
            'string_form': draw(st.booleans()),
            # the table reaches the constructors as built, deep-copied or through pickle (the don't-care marks then are
            # other objects of the same kind)
            'transport': draw(st.sampled_from(['none', 'none', 'deepcopy', 'pickle']))}


def check_models(case):
    core = cirbo_core()
    from cirbo.core.exceptions import BooleanModelError
    from cirbo.core.logic import DontCare
    from cirbo.core.python_function import PyFunctionModel
    from cirbo.core.truth_table import TruthTableModel

    n, cols, dcs, fill = case['n'], case['cols'], case['dcs'], case['fill']
    m = len(cols)
    W = 1 << n
    table = [[DontCare if (dcs[i] >> j) & 1 else bool((cols[i] >> j) & 1) for j in range(W)] for i in range(m)]
    transport = case.get('transport', 'none')
    if transport != 'none':
        import copy
        import pickle

        try:
            table = copy.deepcopy(table) if transport == 'deepcopy' else pickle.loads(pickle.dumps(table))
        except Exception:  # noqa  (marks that cannot be copied are sent as they are)
            pass
    if case['string_form']:
        arg = [''.join('*' if v == DontCare and v is not True and v is not False else ('1' if v else '0') for v in row) for row in table]
    else:
        arg = [list(row) for row in table]

    def f(args):
        j = 0
        for a in args:
            j = (j << 1) | (1 if a else 0)
        return [table[i][j] for i in range(m)]

    params = ', '.join(f'a{i}' for i in range(n))
    # a callable that hands out rows it OWNS (the same list object for the same input every time)
    stored_rows = [[table[i][j] for i in range(m)] for j in range(W)]

    def f_stored(args):
        j = 0
        for a in args:
            j = (j << 1) | (1 if a else 0)
        return stored_rows[j]

    bridged_src = TruthTableModel([list(r) for r in table])
    models = {'TruthTableModel': TruthTableModel(arg), 'PyFunctionModel': PyFunctionModel(f, input_size=n),
              'PyFunctionModel.from_positional': PyFunctionModel.from_positional(eval(f'lambda {params}: f([{params}])', {'f': f})),
              'PyFunctionModel(stored rows)': PyFunctionModel(f_stored, input_size=n, output_size=m),
              'PyFunctionModel(TruthTableModel.check)': PyFunctionModel(bridged_src.check, input_size=n, output_size=m)}
    rows = [tuple(bool((j >> (n - 1 - i)) & 1) for i in range(n)) for j in range(W)]
    definition = {}
    cells = [(i, j) for i in range(m) for j in range(W) if (dcs[i] >> j) & 1]
    for i, j in cells:
        definition[(rows[j], i)] = bool((fill[i] >> j) & 1)
    expected = [[bool((fill[i] >> j) & 1) if (dcs[i] >> j) & 1 else bool((cols[i] >> j) & 1) for j in range(W)] for i in range(m)]

    def same(a, b):
        return (a is b) or (a == DontCare and b == DontCare and a is not True and a is not False
                            and b is not True and b is not False)

    for name, mod in models.items():
        if mod.input_size != n or mod.output_size != m:
            raise Violation('model_shape', f'{name}: {mod.input_size}x{mod.output_size}')
        mt = mod.get_model_truth_table()
        if len(mt) != m or any(len(r) != W for r in mt) or not all(same(mt[i][j], table[i][j]) for i in range(m) for j in range(W)):
            raise Violation('model_truth_table', f'{name}.get_model_truth_table() differs from the table')
        for j, x in enumerate(rows):
            ch = list(mod.check(list(x)))
            if len(ch) != m or not all(same(ch[i], table[i][j]) for i in range(m)):
                raise Violation('model_check', f'{name}.check({x}) = {ch}')
            for i in range(m):
                if not same(mod.check_at(list(x), i), table[i][j]):
                    raise Violation('model_check_at', f'{name}.check_at({x},{i})')
        fn = mod.define(dict(definition))
        got = [list(map(bool, r)) for r in fn.get_truth_table()]
        if got != expected:
            raise Violation('model_define', f'{name}.define(d): table {got} expected {expected}')
        for j, x in enumerate(rows):
            if list(fn.evaluate(list(x))) != [expected[i][j] for i in range(m)]:
                raise Violation('model_define', f'{name}.define(d).evaluate({x})')
        # completing a model must not change the model: ask it again, then complete it a second time differently
        mt2 = mod.get_model_truth_table()
        if not all(same(mt2[i][j], table[i][j]) for i in range(m) for j in range(W)):
            raise Violation('model_changed_by_define', f'{name}: the model answers differently after define() + evaluation of the completion')
        definition2 = {k: (not v) for k, v in definition.items()}
        expected2 = [[(not expected[i][j]) if (dcs[i] >> j) & 1 else expected[i][j] for j in range(W)] for i in range(m)]
        fn2 = mod.define(dict(definition2))
        got2 = [list(map(bool, r)) for r in fn2.get_truth_table()]
        if got2 != expected2:
            raise Violation('model_second_define', f'{name}: a second define() with another definition gives {got2}, expected {expected2}')
        if [list(map(bool, r)) for r in fn.get_truth_table()] != expected:
            raise Violation('model_first_completion_changed', f'{name}: the first completion changed after the second define()')
        if case['incomplete'] and cells:
            d2 = dict(definition)
            i, j = cells[0]
            del d2[(rows[j], i)]
            try:
                fn2 = mod.define(d2)
                fn2.evaluate(list(rows[j]))
                fn2.get_truth_table()
            except (BooleanModelError, KeyError):
                pass
            else:
                raise Violation('model_incomplete_definition', f'{name}: incomplete definition accepted silently')
    return {'nt': bool(cells) and any(not d_constant(c, n) for c in cols),
            'cls': {f'n={n}', 'dc:' + ('some' if cells else 'none'), 'string_form' if case['string_form'] else 'value_form'}
            | ({'dont_care_marks_copied'} if (transport != 'none' and cells) else set())}


@st.composite
def int_cases(draw, tier):
    if draw(st.integers(0, 5)) == 0:
        # words wider than a float's mantissa or a machine word: sampled argument rows (corners + drawn numbers)
        return {'in_len': draw(st.sampled_from([20, 27, 32, 33, 40, 64, 70])), 'out_len': draw(st.sampled_from([53, 54, 55, 63, 64, 65, 100, 130])),
                'big_endian': draw(st.booleans()), 'binary': draw(st.booleans()), 'a': draw(st.integers(0, 7)), 'b': draw(st.integers(0, 7)),
                'op': draw(st.sampled_from(['lin', 'mul', 'sq', 'mul', 'sq'])),
                'rows': draw(st.lists(st.integers(0, 2 ** 140 - 1), min_size=4, max_size=8))}
    return {'in_len': draw(st.integers(1, 4)), 'out_len': draw(st.integers(1, 6)), 'big_endian': draw(st.booleans()),
            'binary': draw(st.booleans()), 'a': draw(st.integers(0, 7)), 'b': draw(st.integers(0, 7)),
            'op': draw(st.sampled_from(['lin', 'mul', 'sq']))}


def check_int_wrappers(case):
    cirbo_core()
    from cirbo.core.python_function import PyFunction

    il, ol, be = case['in_len'], case['out_len'], case['big_endian']
    a, b = case['a'], case['b']
    if case['binary']:
        fun = {'lin': lambda x, y: a * x + b * y, 'mul': lambda x, y: x * y + a, 'sq': lambda x, y: x * x + y}[case['op']]
        pf = PyFunction.from_int_binary_func(fun, il, ol, big_endian=be)
        n = 2 * il
    else:
        fun = {'lin': lambda x: a * x + b, 'mul': lambda x: x * (x + a), 'sq': lambda x: x * x}[case['op']]
        pf = PyFunction.from_int_unary_func(fun, il, ol, big_endian=be)
        n = il
    if pf.input_size != n or pf.output_size != ol:
        raise Violation('int_wrapper_shape', f'{pf.input_size}x{pf.output_size} expected {n}x{ol}')

    def to_int(bits):
        bits = list(bits)
        if not be:
            bits = bits[::-1]
        v = 0
        for x in bits:
            v = (v << 1) | (1 if x else 0)
        return v

    if 'rows' in case:
        full = (1 << n) - 1
        rows = [tuple(bool((r >> k) & 1) for k in range(n)) for r in [full, full - 1, full - 2, 1 << (n - 1)] + [x & full for x in case['rows']]]
    else:
        rows = itertools.product((False, True), repeat=n)
    for args in rows:
        if case['binary']:
            val = fun(to_int(args[:il]), to_int(args[il:]))
        else:
            val = fun(to_int(args))
        val %= 1 << ol
        bits = [bool((val >> (ol - 1 - k)) & 1) for k in range(ol)]
        if not be:
            bits = bits[::-1]
        got = list(pf.evaluate(list(args)))
        if got != bits:
            raise Violation('int_wrapper', f'{"binary" if case["binary"] else "unary"} big_endian={be} args={args}: {got} expected {bits}')
    return {'nt': True, 'cls': {'binary' if case['binary'] else 'unary', 'big_endian' if be else 'little_endian'} | ({'out_len>=54'} if ol >= 54 else set())}


def utilities(tier):
    cirbo_core()
    from cirbo.core.circuit.utils import input_iterator_with_fixed_sum
    from cirbo.core.utils import canonical_index_to_input, get_bit_value, input_to_canonical_index

    checked = 0
    for n in range(1, 7):
        for j in range(1 << n):
            x = [bool((j >> (n - 1 - i)) & 1) for i in range(n)]
            if input_to_canonical_index(x) != j:
                raise Violation('util:input_to_canonical_index', f'{x} -> {input_to_canonical_index(x)} expected {j}')
            if list(canonical_index_to_input(j, n)) != x:
                raise Violation('util:canonical_index_to_input', f'{j},{n} -> {list(canonical_index_to_input(j, n))}')
            for k in range(n):
                if get_bit_value(j, k, n) is not x[k]:
                    raise Violation('util:get_bit_value', f'get_bit_value({j},{k},{n})')
            checked += 1
        for w in range(n + 1):
            for negint in ([0] if n > 4 else range(1 << n)):
                neg = [bool((negint >> (n - 1 - i)) & 1) for i in range(n)]
                got = [tuple(v) for v in input_iterator_with_fixed_sum(n, w, negations=neg)]
                exp = {tuple(bool((y >> (n - 1 - i)) & 1) != neg[i] for i in range(n)) for y in range(1 << n) if bin(y).count('1') == w}
                if len(got) != len(set(got)) or set(got) != exp:
                    raise Violation('util:input_iterator_with_fixed_sum', f'n={n} k={w} negations={neg}: {got}')
                checked += 1
            got0 = [tuple(v) for v in input_iterator_with_fixed_sum(n, w)]
            if set(got0) != {tuple(bool((y >> (n - 1 - i)) & 1) for i in range(n)) for y in range(1 << n) if bin(y).count('1') == w}:
                raise Violation('util:input_iterator_with_fixed_sum', f'n={n} k={w} default negations')
    for j in (2 ** 53 - 1, 2 ** 53, 2 ** 53 + 1, 2 ** 53 + 2 ** 20 + 3, 2 ** 60 + 12345, 2 ** 64 - 1, 2 ** 64 + 5, 2 ** 100 + 7, 3 ** 70):
        for n in (j.bit_length(), j.bit_length() + 3):
            x = [bool((j >> (n - 1 - i)) & 1) for i in range(n)]
            if input_to_canonical_index(x) != j:
                raise Violation('util:input_to_canonical_index', f'{n} bits of {j} -> {input_to_canonical_index(x)}')
            if list(canonical_index_to_input(j, n)) != x:
                raise Violation('util:canonical_index_to_input', f'{j},{n} -> {list(canonical_index_to_input(j, n))}')
            checked += 1
    return {'evaluations': checked, 'distinct_nontrivial': checked, 'exhaustive': True,
            'samples': ['index/input/bit utilities for n<=6; fixed-weight iterator for all n<=6, all negations n<=4']}


SPEC = {
    'id': 'C12',
    'rule': ('Finite sweep (sharded): every function with n<=2 (from n=0, the constants), m<=2 and n=3, m=1 (quick: a seeded half of the 256 n=3 '
             'functions) x TruthTable (bool and string forms), PyFunction (sequence callable and from_positional) and a '
             'circuit built by an own DNF builder x every protocol query with every index argument, both inverse values, '
             'every non-empty output subset (+ reordered / repeated) for find_negations_to_make_symmetric; answers compared '
             'with definitions computed from the raw table (monotone = documented column-order sense) and pairwise. '
             'Wide: structured functions of 6-9 (10) inputs (folds of a subset of possibly negated inputs, the same gated by an input, '
             'columns that are zero below a row threshold, thresholds, input copies) - the per-input and per-output queries of TruthTable '
             '(both spellings) and PyFunction against the definitions. '
             'Sampled: n=3-5 functions (random / symmetric-up-to-negation / threshold / input-like columns), random '
             'netlist circuits against their reference table, models with generated don\'t-cares (check/check_at/'
             'get_model_truth_table/define incl. incomplete definitions), integer wrappers in both bit orders, utility '
             'functions. Non-trivial: non-constant function.'
             ' Added during the build: sub-check wide (structured functions of 6-10 inputs: folds, gated folds, columns that are zero below a row threshold, thresholds, input copies), zero-input functions, a callable answering tuples, transported models, integer wrappers with words of 20-70 bits in and 53-130 bits out on sampled rows.'),
    'assumptions': ['definitions in props/c12.py written from the protocol docstrings'],
    'subs': [Sub('sampled', func_cases, check_sampled, {'quick': 320, 'thorough': 30000}),
             Sub('wide', wide_cases, check_wide, {'quick': 240, 'thorough': 8000}),
             Sub('netlist_circuit', netlist_cases, check_netlist, {'quick': 400, 'thorough': 30000}),
             Sub('models', model_cases, check_models, {'quick': 800, 'thorough': 50000}),
             Sub('int_wrappers', int_cases, check_int_wrappers, {'quick': 400, 'thorough': 20000})],
    'sharded': {'small_function_sweep': sweep},
    'replay': {'small_function_sweep': replay_sweep},
    'exhaustive': {'utilities': utilities},
    'required_classes': {'sampled': ['kind:symmetric', 'kind:threshold', 'kind:input_like', 'n=4'], 'int_wrappers': ['out_len>=54'],
                         'wide': ['n=7', 'n=8', 'n=9', 'kind:gated', 'kind:upper_rows', 'kind:gate_fold'],
                         'models': ['dc:some', 'string_form', 'value_form']},
}
