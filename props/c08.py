"""C08 - multiplier and squarer generators compute exact products."""

from __future__ import annotations

import itertools

from hypothesis import strategies as st

from props import arith
from vlib import build, refsem, wellformed
from vlib.env import cirbo_core, UuidStream
from vlib.runner import Sub, Violation

MUL_MODES = ['DEFAULT', 'KARATSUBA', 'ALTER', 'DADDA', 'WALLACE', 'POW2_M1']
ADD_MUL = {'DEFAULT': 'add_mul', 'KARATSUBA': 'add_mul_karatsuba_with_efficient_sum', 'ALTER': 'add_mul_alter',
           'DADDA': 'add_mul_dadda', 'WALLACE': 'add_mul_wallace', 'POW2_M1': 'add_mul_pow2_m1',
           'KARATSUBA_PLAIN': 'add_mul_karatsuba'}
SQ_MODES = ['DEFAULT', 'POW2_M1']


def expected_len(kind, n, m=None):
    if kind == 'mul':
        return n + m - 1 if (n == 1 or m == 1) else n + m
    return 1 if n == 1 else 2 * n


def check_product(t, a, b, ret, be, what):
    """a, b: operand labels as passed (numbers in the requested endianness); ret: returned labels."""
    la, lb = (a[::-1], b[::-1]) if be else (a, b)
    seq = ret[::-1] if be else ret
    for lab in ret:
        if lab not in t:
            raise Violation('returned_label_absent', f'{what}: returned label {lab!r} is not a gate')
    lhs = arith.planes_mul([t[x] for x in la], [t[x] for x in lb])
    rhs = arith.planes([(k, t[o]) for k, o in enumerate(seq)])
    if lhs != rhs:
        row, k = arith.first_diff_row(lhs, rhs)
        raise Violation('wrong_product', f'{what}: result bit {k} wrong on evaluated row {row}')


def run_generated(kind, n, m, mode, be, uuid_seed, row_seed, sample_bits=11):
    """generate_mul / generate_square on fresh inputs; returns number of rows evaluated."""
    core = cirbo_core()
    from cirbo.synthesis.generation import arithmetics as ar

    again = uuid_seed % 3 == 0  # generators: ask twice, the first result changed by its owner in between
    with UuidStream(uuid_seed):
        if kind == 'mul' and mode == 'KARATSUBA_PLAIN':
            # add_mul_karatsuba is not reachable through generate_mul: call it on fresh inputs
            c = core.Circuit.bare_circuit(n + m)
            c.set_outputs(ar.add_mul_karatsuba(c, c.inputs[:n], c.inputs[n:], big_endian=be))
            nin = n + m
        elif kind == 'mul':
            c = arith.fresh(lambda: ar.generate_mul(n, m, type=ar.MulMode[mode], big_endian=be), again)
            nin = n + m
        else:
            c = arith.fresh(lambda: ar.generate_square(n, type=ar.SquareMode[mode], big_endian=be), again)
            nin = n
    res = refsem.from_circuit(c)
    what = f'generate_{kind}({n}{"" if m is None else "," + str(m)}, {mode}, big_endian={be})'
    if len(res['inputs']) != nin:
        raise Violation('input_count', f'{what}: {len(res["inputs"])} inputs')
    exp_len = expected_len(kind, n, m)
    if len(res['outputs']) != exp_len:
        raise Violation('result_length', f'{what}: {len(res["outputs"])} result bits, expected {exp_len}')
    corners = []
    if nin > 14:
        if kind == 'mul':
            for av, bv in ((2 ** n - 1, 2 ** m - 1), (2 ** n - 1, 1), (1, 2 ** m - 1), (2 ** (n - 1), 2 ** (m - 1)), (2 ** n - 1, 2 ** (m - 1))):
                abits = [(av >> (n - 1 - i)) & 1 if be else (av >> i) & 1 for i in range(n)]
                bbits = [(bv >> (m - 1 - i)) & 1 if be else (bv >> i) & 1 for i in range(m)]
                corners.append(abits + bbits)
        else:
            for av in (2 ** n - 1, 2 ** (n - 1), 2 ** (n // 2) - 1, (2 ** n - 1) // 3):
                corners.append([(av >> (n - 1 - i)) & 1 if be else (av >> i) & 1 for i in range(n)])
    pats, mask, full = arith.rows_for(nin, row_seed, sample_bits=sample_bits, corner_values=corners)
    try:
        t = refsem.tables(res, pats, mask)
    except (refsem.ArityError, ValueError, KeyError) as e:
        raise Violation('result_malformed', f'{what}: {e}')
    a = res['inputs'][:n]
    b = res['inputs'][n:] if kind == 'mul' else a
    check_product(t, a, b, res['outputs'], be, what)
    pr = wellformed.basic_problems(c)
    if pr:
        raise Violation('wellformed', what + ': ' + '; '.join(pr[:3]))
    return (1 << nin) if full else (1 << sample_bits), len(res['gates'])


# ---------------------------------------------------------------------------
# finite sweep: all small width pairs x modes x endianness, plus the recursion-triggering widths


def sweep_configs(tier):
    small = 6 if tier == 'quick' else 8
    cfg = []
    for n, m in itertools.product(range(1, small + 1), repeat=2):
        for mode in MUL_MODES + ['KARATSUBA_PLAIN']:
            for be in (False, True):
                cfg.append(('mul', n, m, mode, be))
    for n in range(1, (8 if tier == 'quick' else 10) + 1):
        for mode in SQ_MODES:
            for be in (False, True):
                cfg.append(('sq', n, None, mode, be))
    wide_mul = [(18, 18), (20, 20), (21, 17), (24, 21), (7, 7), (7, 4), (9, 9)] if tier == 'quick' else \
        [(18, 18), (18, 5), (19, 19), (20, 20), (21, 17), (21, 21), (24, 21), (24, 24), (12, 12), (9, 12), (36, 36), (40, 37)]
    for n, m in wide_mul:
        for be in ((False,) if tier == 'quick' else (False, True)):
            cfg.append(('mul', n, m, 'KARATSUBA', be))
            cfg.append(('mul', n, m, 'KARATSUBA_PLAIN', not be))
    # (the split path of the default squarer starts at 48 - bar 49 and 53 - and treats odd and even widths differently)
    wide_sq = [48, 49, 50, 51, 53, 55, 58] if tier == 'quick' else list(range(47, 62)) + [63, 64, 65, 96, 97, 101, 103]
    for n in wide_sq:
        for mode in (('DEFAULT',) if tier == 'quick' else SQ_MODES):
            if mode == 'POW2_M1' and n > 54:
                continue
            cfg.append(('sq', n, None, mode, n % 2 == 1))
    # lopsided shapes: the reduction trees of the multipliers leave gaps in their columns only when one operand is
    # much narrower than the other
    narrow = (1, 2, 3) if tier == 'quick' else (1, 2, 3, 4, 5)
    long_ = tuple(range(9, 17)) + (24, 30) if tier == 'quick' else tuple(range(9, 34)) + (40, 48)
    for n, m in itertools.product(narrow, long_):
        for k, mode in enumerate(MUL_MODES):
            cfg.append(('mul', n, m, mode, (n + m + k) % 2 == 1))
            cfg.append(('mul', m, n, mode, (n + m + k) % 2 == 0))
    # products past 256 bits (weights that no longer fit a byte, levels past the small-integer range of the interpreter)
    very_wide = [(256, 4), (2, 258), (255, 6)] if tier == 'quick' else [(256, 4), (2, 258), (255, 6), (4, 257), (130, 130), (129, 132), (3, 300)]
    for k, (n, m) in enumerate(very_wide):
        for mode in (('DEFAULT',) if tier == 'quick' else MUL_MODES):
            cfg.append(('mul', n, m, mode, k % 2 == 1))
    if tier == 'thorough':
        for n, m in itertools.product((9, 10, 11, 12), repeat=2):
            for mode in MUL_MODES:
                cfg.append(('mul', n, m, mode, (n + m) % 2 == 1))
    return cfg


def sweep(tier, shard, nshards, seed):
    cfg = sweep_configs(tier)
    done = nt = rows = wide = 0
    sample = None
    for idx, (kind, n, m, mode, be) in enumerate(cfg):
        if idx % nshards != shard:
            continue
        case = {'kind': kind, 'n': n, 'm': m, 'mode': mode, 'be': be, 'uuid_seed': seed * 1000 + idx, 'row_seed': seed + idx,
                'sample_bits': 11 if tier == 'quick' else 14}
        try:
            r, gates = run_generated(kind, n, m, mode, be, case['uuid_seed'], case['row_seed'], case['sample_bits'])
        except Violation as v:
            v.case = case
            raise
        except BaseException as e:  # noqa
            e.case = case
            raise
        rows += r
        done += 1
        if n >= 2 and (m is None or m >= 2):
            nt += 1
        if n >= 18:
            wide += 1
        sample = {**case, 'gates': gates}
    return {'evaluations': done, 'distinct_nontrivial': nt, 'exhaustive': False,
            'counters': {'rows_evaluated': rows, 'wide_circuits': wide}, 'samples': [sample] if sample else []}


def replay_sweep(case):
    run_generated(case['kind'], case['n'], case['m'], case['mode'], case['be'], case['uuid_seed'], case['row_seed'],
                  case.get('sample_bits', 11))


# ---------------------------------------------------------------------------
# add_* forms on hosts


@st.composite
def host_cases(draw, tier):
    kind = draw(st.sampled_from(['mul', 'mul', 'sq']))
    host = draw(arith.hosts(min_inputs=1, max_inputs=6, max_gates=8))
    case = {'kind': kind, 'host': host, 'host_route': draw(arith.gen.routes(host)), 'be': draw(st.booleans()), 'uuid_seed': draw(st.integers(0, 2 ** 20)),
            'row_seed': draw(st.integers(0, 2 ** 20)),
            # what the caller hands over: private copies, the host's live inputs / outputs list as the first number, or
            # one and the same list object for both numbers (x * x through a multiplier)
            'alias': draw(st.sampled_from([None, None, None, 'inputs', 'outputs', 'same_object', 'same_object'])),
            'hand': draw(st.sampled_from(arith.HAND_STYLES))}
    if kind == 'mul':
        case['mode'] = draw(st.sampled_from(list(ADD_MUL)))
        # host operands do not enlarge the table: sometimes long and lopsided numbers
        width = st.one_of(st.integers(1, 5), st.integers(1, 5), st.integers(6, 24))
        case['a'] = arith.operand_picks(draw, draw(width), allow_repeat=True)
        case['b'] = arith.operand_picks(draw, draw(width), allow_repeat=True)
        if draw(st.integers(0, 3)) == 0:
            # one number is a part of the other, gate for gate (x times its own low or high part): mostly long numbers
            na = draw(st.one_of(st.integers(2, 8), st.integers(18, 26), st.integers(18, 26)))
            case['a'] = arith.operand_picks(draw, na, allow_repeat=True)
            case['a'].pop('zeros', None)
            k = draw(st.sampled_from([1, 1, na // 2, na - 1, draw(st.integers(1, na - 1))]))
            # (mostly the low part: the first gates of a little-endian number, the last ones of a big-endian one)
            low_first = (not case['be']) if draw(st.integers(0, 3)) else case['be']
            part = case['a']['idx'][:k] if low_first else case['a']['idx'][-k:]
            case['b'] = {'idx': list(part), 'repeat': True}
            if draw(st.booleans()):
                case['a'], case['b'] = case['b'], case['a']
            case['alias'] = None
            if na >= 18 and draw(st.integers(0, 3)):
                case['mode'] = draw(st.sampled_from([m_ for m_ in ADD_MUL if m_.startswith('KARATSUBA')] or list(ADD_MUL)))
    else:
        case['mode'] = draw(st.sampled_from(SQ_MODES))
        # (host operands keep the table small: now and then numbers wide enough for the split path of the default squarer)
        case['a'] = arith.operand_picks(draw, draw(st.one_of(st.integers(1, 6), st.integers(1, 6), st.integers(7, 20),
                                                             st.sampled_from([48, 50, 51, 55]))), allow_repeat=True)
    deep = (kind == 'mul' and case['mode'].startswith('KARATSUBA') and max(len(case['a']['idx']), len(case['b']['idx'])) >= 18) or \
        (kind == 'sq' and len(case['a']['idx']) >= 48)
    if deep and draw(st.booleans()) and all(g[0] != '' for g in host['gates']):
        # recursion levels hand the caller's own labels on to helper adders: one operand gate carries the empty label
        k = draw(st.integers(0, len(host['gates']) - 1))
        old = host['gates'][k][0]
        r = lambda x: '' if x == old else x
        case['host'] = dict(host, inputs=[r(x) for x in host['inputs']], outputs=[r(x) for x in host['outputs']],
                            gates=[[r(l), t, [r(o) for o in ops]] for l, t, ops in host['gates']], style='mixed')
        if case['host_route'].get('kind') == 'bench':
            case['host_route'] = dict(case['host_route'], kind='emplace')  # (no bench text for the empty label)
        for key in ('a', 'b'):
            if key in case:
                pos = draw(st.integers(0, len(case[key]['idx']) - 1))
                case[key]['idx'][pos] = k
    sentinel = '_PLACEHOLDER_STR_'
    if not deep and draw(st.integers(0, 5)) == 0 and all(g[0] not in ('', sentinel) for g in case['host']['gates']):
        # an operand gate that carries a label the library uses for bookkeeping of its own, at some position of a number
        host = case['host']
        k = draw(st.integers(0, len(host['gates']) - 1))
        old = host['gates'][k][0]
        r = lambda x: sentinel if x == old else x
        case['host'] = dict(host, inputs=[r(x) for x in host['inputs']], outputs=[r(x) for x in host['outputs']],
                            gates=[[r(l), t, [r(o) for o in ops]] for l, t, ops in host['gates']], style='mixed')
        if case['host_route'].get('kind') == 'bench':
            case['host_route'] = dict(case['host_route'], kind='emplace')
        for key in ('a', 'b'):
            if key in case:
                pos = draw(st.integers(0, len(case[key]['idx']) - 1))
                case[key]['idx'][pos] = k
                case[key].pop('zeros', None)
    return case


def check_host(case):
    cirbo_core()
    from cirbo.synthesis.generation import arithmetics as ar

    host = case['host']
    c = build.build(host, case.get('host_route'))
    before = wellformed.snapshot(c)
    pats, mask, full = arith.rows_for(len(host['inputs']), case['row_seed'])
    t0 = refsem.tables(host, pats, mask)
    a = arith.resolve_operands(host, case['a'])
    be = case['be']
    typ = {g[0]: g[1] for g in host['gates']}
    alias = case.get('alias')
    hs = case.get('hand', 'list')
    fn_decl = getattr(ar, ADD_MUL[case['mode']]) if case['kind'] == 'mul' else (ar.add_square if case['mode'] == 'DEFAULT' else ar.add_square_pow2_m1)
    arg_a = arith.hand(a, hs, fn_decl)
    acls = {'hand:' + hs}
    if alias in ('inputs', 'outputs'):
        live = c.inputs if alias == 'inputs' else c.outputs
        if 1 <= len(live) <= 24:
            a, arg_a = list(live), live
            acls.add('alias:live_list')
    with UuidStream(case['uuid_seed']):
        if case['kind'] == 'mul':
            b = arith.resolve_operands(host, case['b'])
            arg_b = arith.hand(b, hs, fn_decl)
            if alias == 'same_object':
                arg_a = list(a)
                b, arg_b = list(a), arg_a
                acls.add('alias:same_object')
            fn = getattr(ar, ADD_MUL[case['mode']])
            ret = fn(c, arg_a, arg_b, big_endian=be)
            exp_len = expected_len('mul', len(a), len(b))
            what = f'{ADD_MUL[case["mode"]]}(|a|={len(a)}, |b|={len(b)}, big_endian={be})'
        else:
            b = a
            fn = ar.add_square if case['mode'] == 'DEFAULT' else ar.add_square_pow2_m1
            ret = fn(c, arg_a, big_endian=be)
            exp_len = expected_len('sq', len(a))
            what = f'{fn.__name__}(n={len(a)}, big_endian={be})'
    res, t, fresh = arith.host_discipline(host, before, c, t0, pats, mask)
    if len(ret) != exp_len:
        raise Violation('result_length', f'{what}: {len(ret)} result bits, expected {exp_len}')
    check_product(t, a, b, list(ret), be, what)
    cls = {case['kind'] + ':' + case['mode'], 'be' if be else 'le'} | acls
    if any(typ[x] != 'INPUT' for x in a + b):
        cls.add('internal_operands')
    if len(set(a)) < len(a) or (case['kind'] == 'mul' and (len(set(b)) < len(b) or set(a) & set(b))):
        cls.add('shared_or_repeated_operands')
    return {'nt': len(a) >= 2 and len(b) >= 2, 'cls': cls,
            'sample': {'host': build.bench_text(host), 'a': a, 'b': b if case['kind'] == 'mul' else None, 'what': what}}


SPEC = {
    'id': 'C08',
    'rule': ('Finite sweep (sharded): generate_mul for all width pairs 1..5 (1..8 thorough, plus 9..12 sampled rows) x 6 modes x '
             'both endiannesses and generate_square n=1..8 (1..10) x 2 modes x both endiannesses, exhaustive over all operand '
             'values up to 14 input bits (else 2^11 / 2^14 seeded rows + corner operands); recursion-triggering widths '
             '(Karatsuba 18, 20, 21, 24 ..., squares 48-51, 53, 55, 58; thorough 47-61, 63-65, 96, 97, 101, 103); lopsided shapes 1-3 (1-5) x 9-16, 24, 30 (9-33, 40, 48) in both '
             'orders x every mode. Hypothesis part: every add_mul* / add_square* on '
             'arbitrary (internal, repeated, shared) gates of a generated host circuit. Oracle: bit-sliced integer product of the '
             'reference operand vectors == decoded result in the requested endianness, documented result length, host '
             'discipline. Non-trivial: both widths >= 2.'
             ' Added during the build: products past 256 bits, one number being a part of the other gate for gate, an operand gate labelled like the placeholder the library uses itself, squarer widths 48-51, 53, 55, 58 (thorough 47-61, 63-65, 96, 97, 101, 103), lopsided shapes, host squares of 48-55 bits, the empty label on an operand of the deep (Karatsuba / split) paths, generators asked twice, predicted labels, refused preludes, constant-zero runs.'),
    'assumptions': ['reference tables from vlib/refsem.py; wide circuits only on sampled rows'],
    'subs': [Sub('host', host_cases, arith.with_refused_prelude(arith.with_label_collisions(check_host)), {'quick': 1200, 'thorough': 75000})],
    'sharded': {'width_sweep': sweep},
    'replay': {'width_sweep': replay_sweep},
    'required_classes': {'host': ['mul:' + k for k in ADD_MUL] + ['sq:DEFAULT', 'sq:POW2_M1', 'internal_operands', 'be', 'le',
                                                                       'alias:live_list', 'alias:same_object']},
}
