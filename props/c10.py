"""C10 - circuit composition computes the documented functional composition."""

from __future__ import annotations

from hypothesis import strategies as st

from vlib import build, gen, refsem, wellformed
from vlib.env import cirbo_core
from vlib.runner import Sub, Violation

ENTRIES = ['connect_circuit', 'connect_circuit', 'connect_circuit', 'connect_left', 'connect_right', 'connect_inputs',
           'extend_default', 'extend_explicit', 'add_circuit']


@st.composite
def step_strategy(draw, small):
    other = draw(gen.netlists(min_inputs=0, max_inputs=4, max_gates=8 if small else 10, max_arity=3,
                              styles=('plain', 'mixed'), max_outputs=3))
    nlab = len(other['gates'])
    oblocks = []
    if nlab and draw(st.integers(0, 3)) == 0:
        members = sorted({draw(st.integers(0, nlab - 1)) for _ in range(draw(st.integers(1, 3)))})
        oblocks.append({'name': draw(st.sampled_from(['ob', 'B', 'blk'])), 'gates': members})
    return {
        'other': other, 'oroute': draw(gen.routes(other)), 'oblocks': oblocks,
        # 'prefixed': the attached circuit's labels already begin with '<block name>@' (it may itself be the product of an
        # earlier composition under that name)
        'label_mode': draw(st.sampled_from(['disjoint', 'disjoint', 'as_is', 'prefixed'])),
        'entry': draw(st.sampled_from(ENTRIES)), 'right': draw(st.booleans()),
        'pairs': [[draw(st.integers(0, 30)), draw(st.integers(0, 30))] for _ in range(draw(st.integers(0, 3)))],
        'conn_kind': draw(st.sampled_from(['inputs', 'inputs', 'any', 'any', 'repeat', 'full', 'repeat_replaced'])),
        # pass the circuits' own live inputs / outputs lists as connectors whenever a connector list equals one of them
        'live': draw(st.booleans()),
        'name': draw(st.sampled_from(['', '', 'N', 'blk', 'N'])), 'add_prefix': draw(st.sampled_from([True, True, False])),
    }


@st.composite
def cases(draw, tier):
    base = draw(gen.netlists(min_inputs=0, max_inputs=4, max_gates=10, max_arity=3, styles=('plain', 'mixed'),
                             max_outputs=3))
    steps = [draw(step_strategy(tier != 'thorough')) for _ in range(draw(st.sampled_from([1, 1, 2, 3])))]
    return {'base': base, 'broute': draw(gen.routes(base)), 'steps': steps}


def _plan(cur, step, k):
    """Resolve the abstract step against the current model netlist `cur`.
    Returns dict(entry, this_conn, other_conn, right, other_nl)."""
    other = step['other']
    if step['label_mode'] in ('disjoint', 'prefixed'):
        f = (lambda s: f'o{k}_{s}') if step['label_mode'] == 'disjoint' or not step['name'] else (lambda s: f'{step["name"]}@{s}')
        other = {'inputs': [f(x) for x in other['inputs']], 'gates': [[f(l), t, [f(o) for o in ops]] for l, t, ops in other['gates']],
                 'outputs': [f(x) for x in other['outputs']]}
    typ_c = {g[0]: g[1] for g in cur['gates']}
    typ_o = {g[0]: g[1] for g in other['gates']}
    labs_c, labs_o = list(typ_c), list(typ_o)
    entry, right = step['entry'], step['right']
    ci, oi = cur['inputs'], other['inputs']
    if entry == 'add_circuit':
        return dict(entry=entry, this=[], other=[], right=False, other_nl=other)
    if entry == 'connect_inputs' and len(ci) == len(oi) and ci:
        return dict(entry=entry, this=list(ci), other=list(oi), right=True, other_nl=other)
    if entry == 'extend_default':
        if not right and len(cur['outputs']) == len(oi) and len(set(oi)) == len(oi):
            return dict(entry=entry, this=list(cur['outputs']), other=list(oi), right=False, other_nl=other)
        oo = other['outputs']
        if right and len(ci) == len(oo) and not any(typ_o[o] == 'INPUT' and oo.count(o) > 1 for o in oo):
            return dict(entry=entry, this=list(ci), other=list(oo), right=True, other_nl=other)
    if step['conn_kind'] == 'full' and entry in ('connect_circuit', 'extend_explicit'):
        # the whole outputs / inputs lists given explicitly (what the defaults of extend_circuit stand for)
        if not right and oi and len(cur['outputs']) == len(oi) and len(set(oi)) == len(oi):
            return dict(entry=entry, this=list(cur['outputs']), other=list(oi), right=False, other_nl=other)
        oo = other['outputs']
        if right and ci and len(ci) == len(oo) and not any(typ_o[o] == 'INPUT' and oo.count(o) > 1 for o in oo):
            return dict(entry=entry, this=list(ci), other=list(oo), right=True, other_nl=other)
    # explicit connectors from the abstract pairs
    this, oth = [], []
    for a, b in step['pairs']:
        if right:
            pool_t = ci
            pool_o = oi if step['conn_kind'] == 'inputs' else labs_o
        else:
            pool_t = labs_c if step['conn_kind'] != 'inputs' else (ci or labs_c)
            pool_o = oi
        if not pool_t or not pool_o:
            continue
        t, o = pool_t[a % len(pool_t)], pool_o[b % len(pool_o)]
        if right and (t in this or (o in oth and typ_o[o] == 'INPUT')):
            continue
        if not right and o in oth:
            continue
        this.append(t)
        oth.append(o)
    if step['conn_kind'] == 'repeat' and this:
        if right and len(ci) > len(this) and typ_o[oth[0]] != 'INPUT':
            # (an attached *input* paired with two base inputs is left out: the documentation does not say
            # which of the two base inputs then stands for it)
            extra = [x for x in ci if x not in this]
            this.append(extra[0])
            oth.append(oth[0])
        elif not right and len(oi) > len(oth):
            extra = [x for x in oi if x not in oth]
            oth.append(extra[0])
            this.append(this[0])
    if step['conn_kind'] == 'repeat_replaced' and this and entry in ('connect_circuit', 'extend_explicit'):
        # a replaced gate listed twice - with the same partner or with another one: to be refused either way
        k2 = (step['pairs'][0][0] + step['pairs'][0][1]) % len(this)
        this.append(this[0] if right else this[k2])
        oth.append(oth[k2] if right else oth[0])
        return dict(entry=entry, this=this, other=oth, right=right, other_nl=other)
    if entry == 'connect_left' and not right and len(oi) == len(set(oi)):
        pool_t = labs_c
        if pool_t and oi:
            this_l = [pool_t[(step['pairs'][q % len(step['pairs'])][0] if step['pairs'] else q) % len(pool_t)] for q in range(len(oi))]
            return dict(entry='connect_left', this=this_l, other=list(oi), right=False, other_nl=other)
    if entry == 'connect_right' and ci:
        pool_o = labs_o if step['conn_kind'] != 'inputs' else (oi or labs_o)
        if pool_o:
            oth_r = [pool_o[(step['pairs'][q % len(step['pairs'])][1] if step['pairs'] else q) % len(pool_o)] for q in range(len(ci))]
            if not any(typ_o[o] == 'INPUT' and oth_r.count(o) > 1 for o in oth_r):
                return dict(entry='connect_right', this=list(ci), other=oth_r, right=True, other_nl=other)
    if entry == 'extend_explicit':
        return dict(entry='extend_explicit', this=this, other=oth, right=right, other_nl=other)
    return dict(entry='connect_circuit', this=this, other=oth, right=right, other_nl=other)


def reference_compose(cur, other, this, oth, right, name, add_prefix, cur_blocks):
    """The documented composition on plain netlists.  Returns ('error', reason) or ('ok', netlist, newmap)."""
    typ_c = {g[0]: g[1] for g in cur['gates']}
    typ_o = {g[0]: g[1] for g in other['gates']}
    ops_o = {g[0]: g[2] for g in other['gates']}
    if name in cur_blocks:
        return 'error', 'block name exists'
    if right and len(set(this)) != len(this):
        return 'error', 'repeated base connector'
    if not right and len(set(oth)) != len(oth):
        return 'error', 'repeated attached connector'
    if len(this) != len(oth):
        return 'error', 'length mismatch'
    if right and any(typ_c[t] != 'INPUT' for t in this):
        return 'error', 'base connector is not an input'
    if not right and any(typ_o[o] != 'INPUT' for o in oth):
        return 'error', 'attached connector is not an input'
    pre = name + '@' if (name != '' and add_prefix) else ''
    conn_of: dict[str, list[str]] = {}
    for t, o in zip(this, oth):
        conn_of.setdefault(o, []).append(t)
    m = lambda x: conn_of[x][0] if x in conn_of else pre + x
    new_labels = [pre + g for g in typ_o if g not in conn_of]
    if any(l in typ_c for l in new_labels):
        return 'error', 'label clash'
    gates = [list(g) for g in cur['gates']]
    if right:
        by = {g[0]: g for g in gates}
        for o, ts in conn_of.items():
            if typ_o[o] == 'INPUT':
                continue
            for t in ts:
                by[t][1] = typ_o[o]
                by[t][2] = [m(x) for x in ops_o[o]]
    added = [[pre + l, t, [m(x) for x in ops]] for l, t, ops in other['gates'] if l not in conn_of]
    # attached gates must precede the base gates they now feed in a topological listing (order is irrelevant for refsem)
    gates = added + gates if right else gates + added
    tnow = {g[0]: g[1] for g in gates}
    inputs = [i for i in cur['inputs'] if tnow[i] == 'INPUT'] + [pre + i for i in other['inputs'] if i not in conn_of]
    outputs = [o for o in cur['outputs'] if o not in this] + [m(o) for o in other['outputs'] if o not in conn_of]
    return 'ok', {'inputs': inputs, 'gates': gates, 'outputs': outputs}, m


def check_compose(case):
    core = cirbo_core()
    CE = core.cexc
    cur = {'inputs': list(case['base']['inputs']), 'gates': [list(g) for g in case['base']['gates']],
           'outputs': list(case['base']['outputs'])}
    c = build.build(case['base'], case['broute'])
    cls = set()
    nt = False
    for k, step in enumerate(case['steps']):
        plan = _plan(cur, step, k)
        other = plan['other_nl']
        oc = build.build(other, step['oroute'] if step['label_mode'] != 'disjoint' or step['oroute']['kind'] != 'bench' else None)
        olabs = [g[0] for g in other['gates']]
        for b in step['oblocks']:
            oc.make_block(b['name'], [olabs[i] for i in b['gates']], [olabs[b['gates'][-1]]])
        osnap = wellformed.snapshot(oc)
        name, add_prefix = step['name'], step['add_prefix']
        entry = plan['entry']
        if entry in ('connect_inputs', 'add_circuit', 'connect_left', 'connect_right', 'extend_default', 'extend_explicit'):
            pass
        cur_blocks = set(c.blocks)
        ref = reference_compose(cur, other, plan['this'], plan['other'], plan['right'], name, add_prefix, cur_blocks)
        pre = name + '@' if (name != '' and add_prefix) else ''
        # carried-over blocks of `other` may clash too
        block_clash = any((pre + b['name']) in cur_blocks or (pre + b['name']) == name for b in step['oblocks'])
        kw = dict(name=name, add_prefix=add_prefix)

        def conn(lst, circ):
            # callers write c.connect_circuit(o, c.outputs, o.inputs): hand over the live list objects
            if step.get('live') and lst:
                for cand in (circ.outputs, circ.inputs):
                    if list(cand) == list(lst):
                        cls.add('live_connectors')
                        return cand
            return list(lst)

        try:
            if entry == 'connect_circuit':
                ret = c.connect_circuit(oc, conn(plan['this'], c), conn(plan['other'], oc), right_connect=plan['right'], **kw)
            elif entry == 'connect_left':
                ret = c.connect_left(oc, conn(plan['this'], c), **kw)
            elif entry == 'connect_right':
                ret = c.connect_right(oc, conn(plan['other'], oc), **kw)
            elif entry == 'connect_inputs':
                ret = c.connect_inputs(oc, **kw)
            elif entry == 'extend_default':
                ret = c.extend_circuit(oc, right_connect=plan['right'], **kw)
            elif entry == 'extend_explicit':
                ret = c.extend_circuit(oc, this_connectors=conn(plan['this'], c), other_connectors=conn(plan['other'], oc),
                                       right_connect=plan['right'], **kw)
            else:
                ret = c.add_circuit(oc, **kw)
        except (CE.CreateBlockError, CE.CircuitValidationError) as e:
            if ref[0] == 'error' or block_clash:
                cls.add('rejected:' + (ref[1] if ref[0] == 'error' else 'carried block name clash'))
                if wellformed.snapshot(oc) != osnap:
                    raise Violation('other_modified', 'attached circuit modified by a rejected call')
                break
            raise Violation('valid_composition_rejected',
                            f'{entry}(right={plan["right"]}, this={plan["this"]}, other={plan["other"]}, name={name!r}, '
                            f'add_prefix={add_prefix}) raised {type(e).__name__}: {e}')
        if ref[0] == 'error' and ref[1].startswith('repeated'):
            # The library refuses a replaced gate that is listed twice.  Refusing is not part of the documented composition
            # when the two listings name the same partner (the pairs stay consistent): an accepted call is then held to the
            # composition of the distinct pairs.  A replaced gate with two different partners has no composition at all.
            seen_pairs = list(dict.fromkeys(zip(plan['this'], plan['other'])))
            ref2 = reference_compose(cur, other, [a for a, _ in seen_pairs], [b for _, b in seen_pairs], plan['right'], name,
                                     add_prefix, cur_blocks)
            if ref2[0] != 'error':
                ref = ref2
                cls.add('accepted_duplicate_pair')
        if ref[0] == 'error':
            raise Violation('invalid_composition_accepted', f'{entry}: expected rejection ({ref[1]}) but the call returned')
        if ret is not c:
            raise Violation('return_value', f'{entry} does not return the base circuit')
        if wellformed.snapshot(oc) != osnap:
            raise Violation('other_modified', f'{entry} modified the attached circuit')
        _, model, m = ref
        if list(c.inputs) != model['inputs']:
            raise Violation('inputs', f'{entry}(right={plan["right"]}): inputs {list(c.inputs)} expected {model["inputs"]}')
        if list(c.outputs) != model['outputs']:
            raise Violation('outputs', f'{entry}(right={plan["right"]}): outputs {list(c.outputs)} expected {model["outputs"]}')
        pr = wellformed.problems(c)
        if pr:
            raise Violation('wellformed', f'after {entry}(right={plan["right"]}, this={plan["this"]}, other={plan["other"]}): ' + '; '.join(pr[:3]))
        res = refsem.from_circuit(c)
        if set(g[0] for g in res['gates']) != set(g[0] for g in model['gates']):
            raise Violation('gate_labels', f'gate labels {sorted(g[0] for g in res["gates"])} expected {sorted(g[0] for g in model["gates"])}')
        try:
            t_res = refsem.tables(res)
        except (refsem.ArityError, ValueError, KeyError) as e:
            raise Violation('result_malformed', str(e))
        t_mod = refsem.tables(model)
        for o in model['outputs']:
            if t_res[o] != t_mod[o]:
                raise Violation('truth_table', f'{entry}(right={plan["right"]}, this={plan["this"]}, other={plan["other"]}): output {o} '
                                               f'differs from the documented composition')
        # observers: copy, both top-sorts and the topological evaluator see the same circuit
        n = len(model['inputs'])
        for j in {0, (1 << n) - 1, (1 << n) // 3}:
            x = [bool((j >> (n - 1 - i)) & 1) for i in range(n)]
            full = c.evaluate_full_circuit(dict(zip(model['inputs'], x)))
            for lab in t_mod:
                if full.get(lab) is not bool((t_mod[lab] >> j) & 1):
                    raise Violation('evaluate_full_circuit', f'gate {lab} on row {x}: {full.get(lab)!r}')
            if c.evaluate(x) != [bool((t_mod[o] >> j) & 1) for o in model['outputs']]:
                raise Violation('evaluate', f'row {x}')
        # block extraction gives back the attached circuit's function
        if name != '':
            blk = c.get_block(name)
            exp_block_inputs = [m(i) for i in other['inputs']]
            # (which of several copies of a repeated attached gate represents it is not specified: outputs are
            # compared functionally below, only their number here)
            if list(blk.inputs) != exp_block_inputs or len(blk.outputs) != len(other['outputs']):
                raise Violation('block_interface', f'block inputs {list(blk.inputs)} outputs {list(blk.outputs)}')
            if len(set(exp_block_inputs)) == len(exp_block_inputs):
                sub = blk.into_circuit()
                snl = refsem.from_circuit(sub)
                try:
                    got = refsem.out_tables(snl)
                except (refsem.ArityError, ValueError, KeyError, AssertionError) as e:
                    raise Violation('block_malformed', f'{type(e).__name__}: {e}')
                if list(sub.inputs) != exp_block_inputs or got != refsem.out_tables(other):
                    raise Violation('block_function', f'{entry}(right={plan["right"]}): block {name!r} extracted as a circuit does not compute the attached circuit')
                cls.add('block_extracted')
            else:
                cls.add('block_inputs_repeated')
        cur = model
        typ_o = {g[0]: g[1] for g in other['gates']}
        cls.add('entry:' + entry)
        cls.add('right' if plan['right'] else 'left')
        if plan['this']:
            cls.add('connected')
            if plan['right'] and any(typ_o[o] != 'INPUT' for o in plan['other']):
                cls.add('right_to_internal_gate')
            if plan['right'] and len(set(plan['other'])) < len(plan['other']):
                cls.add('right_repeated_attached_gate')
            if not plan['right'] and len(set(plan['this'])) < len(plan['this']):
                cls.add('left_repeated_base_gate')
            tc = {g[0]: g[1] for g in model['gates']}
            if not plan['right'] and any(tc.get(t) != 'INPUT' for t in plan['this']):
                cls.add('left_from_internal_gate')
            if len(plan['this']) < (len(other['inputs']) if not plan['right'] else 10 ** 6):
                cls.add('partial_connectors')
            if any(g[1] != 'INPUT' for g in other['gates']) and any(g[1] != 'INPUT' for g in case['base']['gates']):
                nt = True
        if step['oblocks']:
            cls.add('other_has_blocks')
        if name:
            cls.add('named' + ('' if add_prefix else '_no_prefix'))
        if k >= 1:
            cls.add('repeated_composition')
    return {'nt': nt, 'cls': cls, 'sample': {'base': build.bench_text(case['base']),
                                              'steps': [{'other': build.bench_text(s['other']), 'entry': s['entry'], 'right': s['right'],
                                                         'name': s['name']} for s in case['steps']]}}


# ---------------------------------------------------------------------------
# wide buses: several hundred connector pairs at once (finite sweep)

BUS_WIDTHS = {'quick': [255, 256, 257, 300], 'thorough': [128, 255, 256, 257, 258, 300, 511, 513, 1025]}
BUS_ENTRIES = ['extend_default', 'extend_default_right', 'connect_circuit', 'connect_circuit_right', 'connect_left',
               'connect_right', 'connect_inputs', 'partial_left']


def bus_configs(tier):
    return [{'w': w, 'entry': e, 'name': ['', 'bus', 'bus'][(k + i) % 3], 'add_prefix': (k + i) % 2 == 0}
            for k, w in enumerate(BUS_WIDTHS[tier]) for i, e in enumerate(BUS_ENTRIES)]


def run_bus(case):
    import random
    cirbo_core()
    w, entry, name, add_prefix = case['w'], case['entry'], case['name'], case['add_prefix']
    base = {'inputs': [f'a{i}' for i in range(w)], 'outputs': [f'n{i}' for i in range(w)],
            'gates': [[f'a{i}', 'INPUT', []] for i in range(w)] + [[f'n{i}', 'NOT', [f'a{i}']] for i in range(w)]}
    other = {'inputs': [f'b{i}' for i in range(w)], 'outputs': [f'y{i}' for i in range(w)],
             'gates': [[f'b{i}', 'INPUT', []] for i in range(w)] + [[f'y{i}', 'XOR', [f'b{i}', f'b{(i + 1) % w}']] for i in range(w)]}
    c, oc = build.build(base), build.build(other)
    osnap = wellformed.snapshot(oc)
    kw = dict(name=name, add_prefix=add_prefix)
    right = entry in ('extend_default_right', 'connect_circuit_right', 'connect_right', 'connect_inputs')
    if entry == 'connect_inputs':
        this, oth = list(base['inputs']), list(other['inputs'])
    elif entry == 'partial_left':
        # all but the last attached input, from the base outputs in reverse
        this, oth = list(reversed(base['outputs']))[:w - 1], list(other['inputs'])[:w - 1]
    elif right:
        this, oth = list(base['inputs']), list(other['outputs'])
    else:
        this, oth = list(base['outputs']), list(other['inputs'])
    what = f'{entry} with {len(this)} connector pairs (name={name!r}, add_prefix={add_prefix})'
    try:
        if entry == 'extend_default':
            ret = c.extend_circuit(oc, **kw)
        elif entry == 'extend_default_right':
            ret = c.extend_circuit(oc, right_connect=True, **kw)
        elif entry in ('connect_circuit', 'partial_left'):
            ret = c.connect_circuit(oc, list(this), list(oth), **kw)
        elif entry == 'connect_circuit_right':
            ret = c.connect_circuit(oc, list(this), list(oth), right_connect=True, **kw)
        elif entry == 'connect_left':
            ret = c.connect_left(oc, list(this), **kw)
        elif entry == 'connect_right':
            ret = c.connect_right(oc, list(oth), **kw)
        else:
            ret = c.connect_inputs(oc, **kw)
    except cirbo_core().CirboError as e:
        raise Violation('valid_composition_rejected', f'{what} raised {type(e).__name__}: {e}')
    ref = reference_compose(base, other, this, oth, right, name, add_prefix, set())
    assert ref[0] == 'ok', ref
    _, model, m = ref
    if ret is not c:
        raise Violation('return_value', f'{what} does not return the base circuit')
    if wellformed.snapshot(oc) != osnap:
        raise Violation('other_modified', f'{what} modified the attached circuit')
    if list(c.inputs) != model['inputs']:
        raise Violation('inputs', f'{what}: inputs differ from the documented composition (got {len(c.inputs)}, expected {len(model["inputs"])})')
    if list(c.outputs) != model['outputs']:
        raise Violation('outputs', f'{what}: outputs differ from the documented composition (got {len(c.outputs)}, expected {len(model["outputs"])})')
    pr = wellformed.problems(c)
    if pr:
        raise Violation('wellformed', f'after {what}: ' + '; '.join(pr[:3]))
    rs = random.Random(case['w'] * 31 + len(entry))
    pats = [rs.getrandbits(64) for _ in model['inputs']]
    mask = (1 << 64) - 1
    t_mod = refsem.tables(model, pats, mask)
    res = refsem.from_circuit(c)
    try:
        t_res = refsem.tables(res, pats, mask)
    except (refsem.ArityError, ValueError, KeyError, AssertionError) as e:
        raise Violation('result_malformed', f'{what}: {e}')
    for o in model['outputs']:
        if t_res[o] != t_mod[o]:
            raise Violation('truth_table', f'{what}: output {o} differs from the documented composition on sampled rows')
    for j in (0, 1):
        x = [bool((p >> j) & 1) for p in pats]
        if c.evaluate(x) != [bool((t_mod[o] >> j) & 1) for o in model['outputs']]:
            raise Violation('evaluate', f'{what}: evaluate on a sampled row')
    if name:
        blk = c.get_block(name)
        if list(blk.inputs) != [m(i) for i in other['inputs']] or len(blk.outputs) != w:
            raise Violation('block_interface', f'{what}: block {name!r} has {len(blk.inputs)} inputs, {len(blk.outputs)} outputs')
    return len(this)


def bus_sweep(tier, shard, nshards, seed):
    done = pairs = 0
    sample = None
    for idx, case in enumerate(bus_configs(tier)):
        if idx % nshards != shard:
            continue
        try:
            pairs += run_bus(case)
        except Violation as v:
            v.case = case
            raise
        except BaseException as e:  # noqa
            e.case = case
            raise
        done += 1
        sample = case
    return {'evaluations': done, 'distinct_nontrivial': done, 'exhaustive': True,
            'counters': {'connector_pairs': pairs}, 'samples': [sample] if sample else []}


SPEC = {
    'id': 'C10',
    'rule': ('Base + 1-3 attached Hypothesis netlists (<=4 inputs, <=10 gates each; disjoint or clashing labels; attached '
             'circuits carrying blocks) x entry point (connect_circuit both directions, connect_left, connect_right, '
             'connect_inputs, extend_circuit with default and explicit connectors, add_circuit) x connectors (partial '
             'lists, internal base gates for left, internal attached gates for right, repeated base gates (left), repeated '
             'attached gates (right)) x name / add_prefix. Oracle: an own reference implementation of the documented '
             'composition on plain netlists gives the expected input list, output list, gate label set, per-output truth '
             'table, and the calls that must be rejected; plus attached circuit unchanged, wellformed(), agreement of '
             'evaluate / evaluate_full_circuit, and block extraction == attached circuit. Non-trivial: >=1 connector pair '
             'and both circuits have a non-input gate.'
             ' Added during the build: repeated replaced-side connector pairs (an accepted duplicate pair is held to the composition of the distinct pairs), live connector lists, full explicit connector lists, attached circuits whose labels already carry the block prefix, and a finite sweep of buses of 128-1025 connector pairs through every entry point.'),
    'assumptions': ['reference composition model in props/c10.py written from the connect_circuit docstring'],
    'subs': [Sub('compose', cases, check_compose, {'quick': 2500, 'thorough': 200000})],
    'sharded': {'wide_bus': bus_sweep},
    'replay': {'wide_bus': run_bus},
    'required_classes': {'compose': ['entry:connect_circuit', 'entry:connect_left', 'entry:connect_right',
                                     'entry:connect_inputs', 'entry:extend_default', 'entry:extend_explicit',
                                     'entry:add_circuit', 'right_to_internal_gate', 'right_repeated_attached_gate',
                                     'left_repeated_base_gate', 'left_from_internal_gate', 'block_extracted',
                                     'other_has_blocks', 'repeated_composition', 'named_no_prefix', 'live_connectors',
                                     'rejected:repeated base connector', 'rejected:repeated attached connector']},
}
