"""Shared machinery of C03 / C18: simplification passes, pipelines, their generators."""

from __future__ import annotations

import copy

from hypothesis import strategies as st

from vlib import build, gen, refsem, wellformed
from vlib.env import cirbo_core
from vlib.runner import Violation

UNARY_HEAVY = (['NOT'] * 5 + ['IFF'] * 4 + ['LNOT', 'RNOT', 'LIFF', 'RIFF'] * 2 + list(refsem.NARY) * 2
               + ['GT', 'LT', 'GEQ', 'LEQ'] + list(refsem.CONST))
ONLY_NEG = ['NOT'] * 4 + ['LNOT', 'RNOT'] * 2 + list(refsem.NARY) + ['GT', 'LT', 'GEQ', 'LEQ']
ONLY_BUF = ['IFF'] * 4 + ['LIFF', 'RIFF'] * 2 + list(refsem.NARY) + ['GT', 'LT', 'GEQ', 'LEQ']

ATOMS = [['RRG', False], ['RRG', True], ['MU'], ['MDG'], ['MEG']]


def pipelines(max_depth=2, user_passes=False):
    atom = st.sampled_from(ATOMS + ([['NEG'], ['NEG']] if user_passes else []))

    # 'wrap': a pass of a user of the library (a Transformer subclass that itself only copies) which declares library
    # passes to run before and after it - those bring their own implied passes along (nested dependencies).
    # Never inside the LEFT operand of `|`: the operator writes the left operand's declared passes into the composition
    # and they are implied once more when it is applied - invisible for the library's passes (they declare only the
    # idempotent RemoveRedundantGates) and outside what the statement says about them (DESIGN 7.7, round 13).
    wrap = st.tuples(st.just('wrap'), st.lists(atom, max_size=2), st.lists(atom, min_size=1, max_size=2)).map(list)
    leaf = st.one_of(atom, atom, atom, wrap)

    def ext_plain(inner):
        return st.one_of(
            st.tuples(st.just('pipe'), inner, inner).map(list),
            st.tuples(st.just('comp'), st.lists(inner, min_size=1, max_size=3)).map(list),
        )

    plain = st.recursive(atom, ext_plain, max_leaves=4)

    def ext(inner):
        return st.one_of(
            st.tuples(st.just('pipe'), plain, inner).map(list),
            st.tuples(st.just('comp'), st.lists(inner, min_size=1, max_size=3)).map(list),
        )

    return st.recursive(leaf, ext, max_leaves=5)


@st.composite
def top_specs(draw, user_passes=False):
    kind = draw(st.sampled_from(['atom', 'atom', 'pipeline', 'pipeline', 'list', 'cleanup', 'repeat']))
    if kind == 'atom':
        return draw(st.sampled_from(ATOMS))
    if kind == 'pipeline':
        return draw(pipelines(user_passes=user_passes))
    if kind == 'list':
        return ['list', draw(st.lists(pipelines(user_passes=user_passes), min_size=1, max_size=4))]
    if kind == 'repeat':
        a = draw(st.sampled_from(ATOMS + ([['NEG'], ['NEG'], ['NEG']] if user_passes else [])))
        b = draw(st.sampled_from(ATOMS))
        return ['list', [a, a, b, b, a]] if draw(st.booleans()) else ['pipe', ['pipe', a, a], ['pipe', b, a]]
    return ['cleanup', draw(st.booleans())]


@st.composite
def cases(draw, tier, user_passes=False):
    big = tier == 'thorough'
    spec = draw(top_specs(user_passes=user_passes))
    if spec == ['MU']:
        types = draw(st.sampled_from([ONLY_NEG, ONLY_BUF, ONLY_NEG, ONLY_BUF, UNARY_HEAVY]))
    else:
        types = draw(st.sampled_from([UNARY_HEAVY, UNARY_HEAVY, list(gen.ALL_TYPES), ONLY_NEG, ONLY_BUF]))
    # (now and then 7-9 inputs: tables of more than 64 rows)
    many_inputs = draw(st.integers(0, 7)) == 0
    nl = draw(gen.netlists(min_inputs=7 if many_inputs else 0, max_inputs=(9 if big else 8) if many_inputs else (7 if big else 5),
                           max_gates=40 if big else 22, types=types,
                           max_arity=4, styles=('plain', 'digits', 'mixed'), max_outputs=5,
                           dup_rate=draw(st.sampled_from([0, 2, 4])), const_operands=(0, 0, 2),
                           sinks_as_outputs=draw(st.booleans())))
    if nl['gates'] and draw(st.integers(0, 2)) == 0:
        # a chain of 2-7 unary (or pseudo-unary) gates on top of some gate, tapped here and there by outputs: what
        # MergeUnaryOperators is about (parity of the chain, links between non-adjacent members)
        labs = [g[0] for g in nl['gates']]
        unary = sorted({t for t in types if t in ('NOT', 'IFF', 'LNOT', 'RNOT', 'LIFF', 'RIFF')}) or ['NOT']
        prev = labs[draw(st.integers(0, len(labs) - 1))]
        other = labs[draw(st.integers(0, len(labs) - 1))]
        gates, outs = [list(g) for g in nl['gates']], list(nl['outputs'])
        for i in range(draw(st.integers(2, 7))):
            t = draw(st.sampled_from(unary))
            lab = f'chain_{i}'
            while lab in labs:
                lab += '_'
            gates.append([lab, t, [prev] if t in ('NOT', 'IFF') else ([prev, other] if t[0] == 'L' else [other, prev])])
            if draw(st.integers(0, 3)) == 0:
                outs.append(lab)
            prev = lab
        outs.append(prev)
        nl = dict(nl, gates=gates, outputs=outs)
    merges = any(a[0] in ('MEG', 'MDG') for a in atoms_of(spec))
    sym = sorted(t for t in types if t in ('AND', 'OR', 'XOR', 'NAND', 'NOR', 'NXOR'))
    pool = [x for x in list(nl['inputs']) + [g[0] for g in nl['gates']] if x != '']
    if merges and sym and len(set(pool)) >= 2 and draw(st.integers(0, 2)) == 0:
        # twins of one symmetric type over the same operands in another order, both visible: what the merging passes owe
        # to every symmetric type alike
        t = draw(st.sampled_from(sym))
        ops = draw(st.lists(st.sampled_from(sorted(set(pool))), min_size=2, max_size=3, unique=True))
        other = ops[1:] + ops[:1] if draw(st.booleans()) else ops[::-1]
        la, lb = 'tw_a', 'tw_b'
        while la in pool or lb in pool:
            la, lb = la + '_', lb + '_'
        nl = dict(nl, gates=[list(g) for g in nl['gates']] + [[la, t, ops], [lb, t, other]], outputs=list(nl['outputs']) + [la, lb])
    if nl['gates'] and nl['style'] != 'digits' and draw(st.integers(0, 2 if merges else 5)) == 0 and all(g[0] != '' for g in nl['gates']):
        # one gate carries the empty label (legal, and falsy) - preferably a gate the passes have something to do with:
        # one of several gates computing the same function, or a unary gate
        cand = []
        if len(nl['inputs']) <= 7:
            try:
                t = refsem.tables(nl)
                groups: dict = {}
                for g in nl['gates']:
                    if g[1] != 'INPUT':
                        groups.setdefault(t[g[0]], []).append(g[0])
                cand = [l for ls in groups.values() if len(ls) > 1 for l in ls]
            except Exception:  # noqa
                cand = []
        if not cand or draw(st.integers(0, 3)) == 0:
            cand = cand + [g[0] for g in nl['gates'] if g[1] in ('NOT', 'IFF', 'LNOT', 'RNOT', 'LIFF', 'RIFF')]
        cand = cand or [g[0] for g in nl['gates']]
        old = cand[draw(st.integers(0, len(cand) - 1))]
        r = lambda x: '' if x == old else x
        # (style 'mixed': the empty label is no identifier of the bench format, so no construction route through bench text)
        nl = dict(nl, inputs=[r(x) for x in nl['inputs']], outputs=[r(x) for x in nl['outputs']],
                  gates=[[r(l), t, [r(o) for o in ops]] for l, t, ops in nl['gates']], style='mixed')
    return {'nl': nl, 'route': draw(gen.routes(nl)), 'spec': spec, 'reuse_instance': draw(st.booleans()),
            'hand': draw(st.sampled_from(['list', 'tuple', 'iter'])), 'warm': draw(st.integers(0, 3)) == 0}


def _mods():
    cirbo_core()
    from cirbo.core.circuit.transformer import Transformer, TransformerComposition
    from cirbo.minimization.simplification import (MergeDuplicateGates, MergeEquivalentGates,
                                                   MergeUnaryOperators, RemoveRedundantGates, cleanup)

    return dict(Transformer=Transformer, TransformerComposition=TransformerComposition, MDG=MergeDuplicateGates,
                MEG=MergeEquivalentGates, MU=MergeUnaryOperators, RRG=RemoveRedundantGates, cleanup=cleanup)


def make_atom(a):
    m = _mods()
    if a[0] == 'RRG':
        return m['RRG'](allow_inputs_removal=bool(a[1]))
    if a[0] == 'COPY':
        return through_class()()
    if a[0] == 'NEG':
        return negate_class()()
    return m[a[0]]()


def build_transformer(spec):
    """spec -> Transformer object (for atom / pipe / comp)."""
    m = _mods()
    if spec[0] in ('RRG', 'MU', 'MDG', 'MEG', 'NEG'):
        return make_atom(spec)
    if spec[0] == 'pipe':
        return build_transformer(spec[1]) | build_transformer(spec[2])
    if spec[0] == 'comp':
        return m['TransformerComposition']([build_transformer(s) for s in spec[1]])
    if spec[0] == 'wrap':
        return through_class()(pre_transformers=tuple(make_atom(a) for a in spec[1]), post_transformers=tuple(make_atom(a) for a in spec[2]))
    raise ValueError(spec)


_THROUGH: list = []
_NEGATE: list = []


def negate_class():
    """A pass of a user of the library that is visibly NOT idempotent and declares nothing: every output is replaced by
    a fresh negation of itself (twice restores the function, with two more gates per output)."""
    if not _NEGATE:
        m = _mods()
        core = cirbo_core()

        class NegateOutputs(m['Transformer']):
            def _transform(self, circuit):
                res = copy.copy(circuit)
                outs = []
                made = {}
                for o in res.outputs:
                    if o not in made:
                        lab = '~' + o
                        while res.has_gate(lab):
                            lab = '~' + lab
                        res.emplace_gate(lab, core.gate.NOT, (o,))
                        made[o] = lab
                    outs.append(made[o])
                res.set_outputs(outs)
                return res

        _NEGATE.append(NegateOutputs)
    return _NEGATE[0]


def through_class():
    if not _THROUGH:
        base = _mods()['Transformer']

        class Through(base):
            """Copies its argument; everything it does is in the passes it declares."""

            def _transform(self, circuit):
                return copy.copy(circuit)

        _THROUGH.append(Through)
    return _THROUGH[0]


def atoms_of(spec) -> list:
    """Constituent atomic passes, in application order."""
    if spec[0] in ('RRG', 'MU', 'MDG', 'MEG', 'COPY', 'NEG'):
        return [spec]
    if spec[0] == 'pipe':
        return atoms_of(spec[1]) + atoms_of(spec[2])
    if spec[0] in ('comp', 'list'):
        out = []
        for s in spec[1]:
            out += atoms_of(s)
        return out
    if spec[0] == 'cleanup':
        return [['RRG', False], ['MU'], ['MDG']] + ([['MEG']] if spec[1] else [])
    if spec[0] == 'wrap':
        # (the user's pass itself is a constituent too: copying may store the gates in another order)
        return [list(a) for a in spec[1]] + [['COPY']] + [list(a) for a in spec[2]]
    raise ValueError(spec)


_INSTANCES: dict = {}


def _instance(spec, reuse):
    """A transformer object for `spec`: fresh, or (reuse) the one this process already used for the same spec - passes
    are advertised as reusable objects, so nothing may be remembered from one transform() to the next."""
    if not reuse:
        return build_transformer(spec)
    key = repr(spec)
    if key not in _INSTANCES:
        _INSTANCES[key] = build_transformer(spec)
    return _INSTANCES[key]


def _declares_iterable(fn) -> bool:
    import inspect

    try:
        return any('Iterable' in str(p.annotation) for p in inspect.signature(fn).parameters.values())
    except (TypeError, ValueError):
        return False


def build_for_pass(case):
    """The circuit handed to the passes.  With `warm` the very same object has been through the passes before, while
    it still had more outputs (every sink was one), and had its outputs narrowed to the final list afterwards."""
    nl = case['nl']
    if not case.get('warm'):
        return build.build(nl, case['route'])
    used = {o for g in nl['gates'] for o in g[2]}
    wide = list(nl['outputs']) + [g[0] for g in nl['gates'] if g[0] not in used and g[0] not in nl['outputs']]
    c = build.build(dict(nl, outputs=wide), case['route'])
    try:
        apply_spec(case['spec'], c, reuse=bool(case.get('reuse_instance')), hand=case.get('hand', 'list'))
    except Exception:  # noqa  (what the first application does is not the subject here)
        pass
    c.set_outputs(list(nl['outputs']))
    return c


def apply_spec(spec, circuit, reuse=False, hand='list'):
    m = _mods()
    if spec[0] == 'cleanup':
        return m['cleanup'](circuit, use_heavy=bool(spec[1]))
    if spec[0] == 'list':
        passes = [_instance(s, reuse) for s in spec[1]]
        fn = m['Transformer'].apply_transformers
        # the collection of passes as a list, a tuple, or - the parameter is declared Iterable - a one-shot generator
        if hand == 'iter' and not _declares_iterable(fn):
            hand = 'tuple'
        arg = tuple(passes) if hand == 'tuple' else (p for p in passes) if hand == 'iter' else passes
        return fn(circuit, arg)
    return _instance(spec, reuse).transform(circuit)


def netlist_twin_classes(nl) -> set:
    """Structural near-duplicates that signature hashing could confuse."""
    cls = set()
    seen = {}
    for lab, ty, ops in nl['gates']:
        if ty in ('XOR', 'NXOR') and len(ops) >= 2:
            key = (ty, tuple(sorted(set(ops))))
            if key in seen and seen[key] != tuple(sorted(ops)):
                cls.add('xor_same_set_other_multiset')
            seen.setdefault(key, tuple(sorted(ops)))
    return cls


def spec_classes(spec) -> set:
    cls = {'top:' + (spec[0] if spec[0] in ('pipe', 'comp', 'list', 'cleanup') else 'atom')}
    at = atoms_of(spec)
    if "'wrap'" in repr(spec):
        cls.add('declared_dependencies')
    for a in at:
        cls.add('pass:' + a[0] + ('+rm' if a[0] == 'RRG' and a[1] else ''))
    if any(at[i] == at[i + 1] for i in range(len(at) - 1)):
        cls.add('adjacent_equal')
    if any(at[i][0] == 'RRG' and at[i + 1][0] == 'RRG' and at[i] != at[i + 1] for i in range(len(at) - 1)):
        cls.add('adjacent_rrg_flags_differ')
    return cls


def function_preserved(nl, res_nl, removal_allowed: bool):
    """Raises Violation unless res_nl has the same interface and truth table as nl."""
    if len(res_nl['outputs']) != len(nl['outputs']):
        raise Violation('output_count', f'{len(nl["outputs"])} outputs became {len(res_nl["outputs"])}')
    if removal_allowed:
        # some pass of the pipeline may drop inputs that are unreachable *at that point*: the result's inputs
        # must be a subsequence of the original inputs (the exact set is checked for the single pass in C18;
        # the truth-table comparison below fails if a dropped input mattered)
        it = iter(nl['inputs'])
        if not all(any(x == y for y in it) for x in res_nl['inputs']):
            raise Violation('inputs', f'inputs {nl["inputs"]} became {res_nl["inputs"]} (not an order-preserving subset)')
    elif res_nl['inputs'] != nl['inputs']:
        raise Violation('inputs', f'inputs {nl["inputs"]} became {res_nl["inputs"]}')
    pats, mask = refsem.full_patterns(len(nl['inputs']))
    pmap = dict(zip(nl['inputs'], pats))
    t0 = refsem.tables(nl)
    try:
        t1 = refsem.tables(res_nl, [pmap[i] for i in res_nl['inputs']], mask)
    except (refsem.ArityError, KeyError, ValueError) as e:
        raise Violation('result_malformed', f'result netlist cannot be evaluated: {type(e).__name__}: {e}')
    for k, (a, b) in enumerate(zip(nl['outputs'], res_nl['outputs'])):
        if t0[a] != t1[b]:
            raise Violation('truth_table', f'output {k}: {a} -> {b} computes a different function')
    return t0, t1


def removal_requested(spec) -> bool:
    return any(a[0] == 'RRG' and a[1] for a in atoms_of(spec))
