"""C15 - evaluation under partial assignments is sound and monotone."""

from __future__ import annotations

import itertools

from hypothesis import strategies as st

from vlib import build, gen, refsem
from vlib.env import cirbo_core
from vlib.runner import Sub, Violation


@st.composite
def cases(draw, tier):
    nmax = 5 if tier == 'thorough' else 4
    nl = draw(gen.netlists(min_inputs=0, max_inputs=nmax, max_gates=16 if tier == 'thorough' else 12,
                           max_arity=4, styles=('plain', 'digits', 'mixed'), max_outputs=3, const_operands=(0, 0, 2)))
    return {'nl': nl, 'route': draw(gen.routes(nl)), 'explicit_undefined': draw(st.booleans()), 'ints': draw(st.integers(0, 4)) == 0,
            # how the assignment reaches the call: as built, or after copy.deepcopy / a pickle round trip (the Undefined
            # marker then is another object of the same kind)
            'transport': draw(st.sampled_from(['none', 'none', 'deepcopy', 'pickle'])),
            # what happened to the circuit before it is evaluated here: converted to the bench basis, or looked at (evaluated,
            # sorted, copied) and then had some inputs fixed to constants
            'pre': draw(st.sampled_from([None, None, None, 'into_bench', 'fix_inputs'])),
            'fix': [draw(st.integers(0, 8)) for _ in range(draw(st.integers(1, 2)))], 'fix_to': draw(st.booleans()),
            'select': [draw(st.integers(0, 40)) for _ in range(draw(st.sampled_from([0, 0, 1, 2, 3])))]}


def check_partial(case):
    core = cirbo_core()
    U = core.Undefined
    nl = case['nl']
    c = build.build(nl, case['route'])
    if case.get('pre') == 'into_bench':
        # the circuit under evaluation is what into_bench() left behind (rewritten gates, helper gates stored after
        # their users); the reference reads its gates and operands back and evaluates them on its own
        from vlib.env import UuidStream

        if nl['inputs'] or not any(g[1] in refsem.CONST for g in nl['gates']):
            # (a constant cannot be expressed in the bench basis without an input: that conversion is declined, see C14)
            with UuidStream(7):
                c.into_bench()
            nl = refsem.from_circuit(c)
    if case.get('pre') == 'fix_inputs' and nl['inputs']:
        build.observe(c)
        chosen = list(dict.fromkeys(nl['inputs'][i % len(nl['inputs'])] for i in case.get('fix', [0])))
        c.replace_inputs(chosen if case.get('fix_to') else chosen[:1], [] if case.get('fix_to') else chosen[1:])
        nl = refsem.from_circuit(c)
    n = len(nl['inputs'])
    pats, mask = refsem.full_patterns(n)
    t = refsem.tables(nl)
    labs = [g[0] for g in nl['gates']]
    typ = {g[0]: g[1] for g in nl['gates']}
    reach = refsem.reachable(nl)
    results: dict[tuple, dict] = {}
    n_defined_with_undef_dep = 0

    tr = case.get('transport', 'none')
    # defined values spelled 0 / 1 (as the repository's own tests spell them): whatever comes back as a plain int is read as
    # the truth value it equals
    ints = bool(case.get('ints'))

    def norm(d):
        return {k: (bool(v) if type(v) is int else v) for k, v in d.items()} if ints else d

    def sent(assign):
        if tr == 'deepcopy':
            import copy

            return copy.deepcopy(assign)
        if tr == 'pickle':
            import pickle

            return pickle.loads(pickle.dumps(assign))
        return dict(assign)

    # the per-gate truth tables are evaluations under total assignments: no Undefined, and the reference value
    try:
        per_gate = c.get_gates_truth_table()
    except AttributeError:
        per_gate = None
    if per_gate is not None:
        for lab in labs:
            col = per_gate.get(lab)
            if col is None:
                raise Violation('missing_gate', f'get_gates_truth_table: gate {lab} missing')
            for j, v in enumerate(col):
                if v is not bool((t[lab] >> j) & 1):
                    raise Violation('undefined_on_total' if not (v is True or v is False) else 'unsound',
                                    f'get_gates_truth_table: gate {lab} ({typ[lab]}) row {j}: {v!r}')
    for p in itertools.product((False, True, None), repeat=n):
        assign = {}
        cube = mask
        for i, v in enumerate(p):
            if v is None:
                if case['explicit_undefined']:
                    assign[nl['inputs'][i]] = U
            else:
                assign[nl['inputs'][i]] = (1 if v else 0) if ints else v
                cube &= pats[i] if v else (pats[i] ^ mask)
        total = None not in p
        lazy = norm(c.evaluate_circuit(sent(assign)))
        full = norm(c.evaluate_full_circuit(sent(assign)))
        outs = norm(c.evaluate_circuit_outputs(sent(assign)))
        for name, res in (('evaluate_circuit', lazy), ('evaluate_full_circuit', full)):
            for lab in labs:
                if lab not in res:
                    raise Violation('missing_gate', f'{name}: gate {lab} missing from the result')
                v = res[lab]
                if v is True:
                    if t[lab] & cube != cube:
                        raise Violation('unsound', f'{name} under {assign}: gate {lab} ({typ[lab]}) reported True but a completion gives False')
                elif v is False:
                    if t[lab] & cube != 0:
                        raise Violation('unsound', f'{name} under {assign}: gate {lab} ({typ[lab]}) reported False but a completion gives True')
                elif not (v == U):
                    raise Violation('bad_value', f'{name}: gate {lab} has value {v!r}')
                elif total and (name == 'evaluate_full_circuit' or lab in reach or typ[lab] == 'INPUT'):
                    raise Violation('undefined_on_total', f'{name} under total assignment {assign}: gate {lab} is Undefined')
        for o in nl['outputs']:
            if not (outs[o] is lazy[o] or outs[o] == lazy[o]):
                raise Violation('outputs_mismatch', f'evaluate_circuit_outputs[{o}]={outs[o]!r} vs evaluate_circuit {lazy[o]!r}')
        if set(outs) != set(nl['outputs']):
            raise Violation('outputs_mismatch', f'evaluate_circuit_outputs keys {sorted(outs)}')
        sel = case.get('select')
        if sel and labs:
            # an explicit selection of gates to evaluate (list or tuple; any gates, also repeated): the same verdicts for
            # everything the selection reaches
            chosen = [labs[k % len(labs)] for k in sel]
            part = norm(c.evaluate_circuit(sent(assign), outputs=chosen if len(sel) % 2 else tuple(chosen)))
            cone = refsem.reachable(nl, chosen)
            for lab in cone:
                v = part.get(lab, U)
                if v is True and t[lab] & cube != cube or v is False and t[lab] & cube != 0:
                    raise Violation('unsound', f'evaluate_circuit(outputs={chosen}) under {assign}: gate {lab} reported {v}')
                if total and not (v is True or v is False):
                    raise Violation('undefined_on_total', f'evaluate_circuit(outputs={chosen}) under total assignment {assign}: gate {lab} is {v!r}')
        results[p] = (lazy, full)
        if not total:
            for lab in labs:
                if typ[lab] != 'INPUT' and (full[lab] is True or full[lab] is False):
                    n_defined_with_undef_dep += 1
    # monotonicity: one-step refinements keep every defined value
    for p, (lazy, full) in results.items():
        for i, v in enumerate(p):
            if v is not None:
                continue
            for b in (False, True):
                q = p[:i] + (b,) + p[i + 1:]
                lazy2, full2 = results[q]
                for name, r1, r2 in (('evaluate_circuit', lazy, lazy2), ('evaluate_full_circuit', full, full2)):
                    for lab in labs:
                        a = r1[lab]
                        if (a is True or a is False) and r2[lab] is not a:
                            raise Violation('not_monotone', f'{name}: gate {lab} was {a} under {p} but {r2[lab]!r} after defining input {i}={b}')
    # non-trivial: some gate defined although an input it structurally depends on is undefined
    nt = False
    dep: dict[str, set] = {}
    for lab in refsem.own_toposort(nl):
        if typ[lab] == 'INPUT':
            dep[lab] = {lab}
        else:
            s = set()
            for o in next(g[2] for g in nl['gates'] if g[0] == lab):
                s |= dep[o]
            dep[lab] = s
    for p, (lazy, full) in results.items():
        undef = {nl['inputs'][i] for i, v in enumerate(p) if v is None}
        if not undef:
            continue
        if any((full[lab] is True or full[lab] is False) and dep[lab] & undef for lab in labs if typ[lab] != 'INPUT'):
            nt = True
            break
    cls = gen.classify(nl)
    cls.add(f'n={n}')
    if case.get('pre') == 'into_bench':
        cls.add('after_into_bench')
    if case.get('pre') == 'fix_inputs':
        cls.add('after_fix_inputs')
    if tr != 'none' and case['explicit_undefined']:
        cls.add('undefined_marker_copied')
    if ints:
        cls.add('values_as_0_1')
    return {'nt': nt, 'cls': cls, 'count': {'partial_assignments': 3 ** n},
            'sample': {'bench': build.bench_text(nl), 'explicit_undefined': case['explicit_undefined']}}


@st.composite
def reuse_cases(draw, tier):
    nl = draw(gen.netlists(min_inputs=1, max_inputs=4, max_gates=10, max_arity=3, styles=('plain', 'mixed'),
                           max_outputs=3, const_operands=(0, 0, 2)))
    n = len(nl['inputs'])
    steps = []
    for _ in range(draw(st.integers(2, 8))):
        steps.append([draw(st.sampled_from(['lazy', 'full', 'outputs'])), draw(st.integers(0, n - 1)),
                      draw(st.sampled_from([True, False, None]))])
    return {'nl': nl, 'route': draw(gen.routes(nl)), 'steps': steps}


def check_reuse(case):
    """The caller keeps ONE assignment dictionary, evaluates, refines / changes an input in place, evaluates again
    (possibly through another entry point).  Every answer must be sound for the inputs the dictionary fixes then."""
    core = cirbo_core()
    U = core.Undefined
    nl = case['nl']
    c = build.build(nl, case['route'])
    if case.get('pre') == 'fix_inputs' and nl['inputs']:
        build.observe(c)
        chosen = list(dict.fromkeys(nl['inputs'][i % len(nl['inputs'])] for i in case.get('fix', [0])))
        c.replace_inputs(chosen if case.get('fix_to') else chosen[:1], [] if case.get('fix_to') else chosen[1:])
        nl = refsem.from_circuit(c)
    n = len(nl['inputs'])
    pats, mask = refsem.full_patterns(n)
    t = refsem.tables(nl)
    labs = [g[0] for g in nl['gates']]
    typ = {g[0]: g[1] for g in nl['gates']}
    reach = refsem.reachable(nl)
    d = {}
    polluted = False
    for k, (entry, i, val) in enumerate(case['steps']):
        name = nl['inputs'][i]
        if val is None:
            d.pop(name, None)
        else:
            d[name] = val
        if any(key not in nl['inputs'] for key in d):
            polluted = True  # an earlier call wrote gate values into the caller's dictionary
        cube = mask
        for q, x in enumerate(nl['inputs']):
            if x in d and (d[x] is True or d[x] is False):
                cube &= pats[q] if d[x] else (pats[q] ^ mask)
        total = all(x in d and (d[x] is True or d[x] is False) for x in nl['inputs'])
        if entry == 'lazy':
            res = c.evaluate_circuit(d)
        elif entry == 'full':
            res = c.evaluate_full_circuit(d)
        else:
            res = c.evaluate_circuit_outputs(d)
        for lab, v in res.items():
            if lab not in t:
                continue
            if v is True and t[lab] & cube != cube:
                raise Violation('reuse_unsound', f'step {k} ({entry}) inputs {d if not polluted else {x: d[x] for x in nl["inputs"] if x in d}}: gate {lab} reported True but a completion gives False')
            if v is False and t[lab] & cube != 0:
                raise Violation('reuse_unsound', f'step {k} ({entry}): gate {lab} reported False but a completion gives True')
            if total and v == U and v is not True and v is not False and (entry == 'full' or lab in reach or typ[lab] == 'INPUT'):
                raise Violation('reuse_undefined_on_total', f'step {k} ({entry}): gate {lab} Undefined under a total assignment')
    return {'nt': len(case['steps']) >= 3 and gen.nontrivial_basic(nl), 'cls': {'steps>=4'} if len(case['steps']) >= 4 else set()}


def operator_tables(tier):
    core = cirbo_core()
    U = core.Undefined
    gate = core.gate
    checked = 0
    for name in refsem.ALL_TYPES:
        gt = getattr(gate, name)
        if name in refsem.CONST:
            ars = [0]
        elif name in refsem.UNARY:
            ars = [1]
        elif name in refsem.FIXED_BINARY:
            ars = [2]
        else:
            ars = [2, 3, 4]
        for k in ars:
            table = {}
            for tup in itertools.product((False, True, U), repeat=k):
                key = tuple(None if x == U and x is not True and x is not False else x for x in tup)
                table[key] = gt.operator(*tup)
            for key, v in table.items():
                checked += 1
                undef = [i for i, x in enumerate(key) if x is None]
                comps = []
                for fill in itertools.product((False, True), repeat=len(undef)):
                    vals = list(key)
                    for i, b in zip(undef, fill):
                        vals[i] = b
                    comps.append(bool(refsem.apply_gate(name, [1 if x else 0 for x in vals], 1) & 1))
                if v is True or v is False:
                    if any(cv is not v for cv in comps):
                        raise Violation('operator_unsound', f'{name}{key} = {v} but completions give {comps}')
                elif not (v == U):
                    raise Violation('operator_bad_value', f'{name}{key} = {v!r}')
                elif not undef:
                    raise Violation('operator_undefined_on_total', f'{name}{key} is Undefined')
                for i in undef:
                    for b in (False, True):
                        q = key[:i] + (b,) + key[i + 1:]
                        if (v is True or v is False) and table[q] is not v:
                            raise Violation('operator_not_monotone', f'{name}{key}={v} but {name}{q}={table[q]!r}')
    # many operands: structured tuples (all equal / alternating / one odd one out) with no, one or two undefined positions
    wide = [5, 8, 9, 16, 17, 31, 32, 33, 34, 40, 63, 64, 65, 66, 70] + ([] if tier == 'quick' else [96, 97, 128, 129, 130, 200, 257])
    for name in sorted(refsem.NARY):
        gt = getattr(gate, name)
        for k in wide:
            bases = [[True] * k, [False] * k, [i % 2 == 0 for i in range(k)], [i % 3 == 0 for i in range(k)],
                     [i == k - 1 for i in range(k)], [i != 0 for i in range(k)]]
            spots = sorted({0, 1, k // 2, k - 1, k - 2, max(0, k - 32), max(0, k - 33), max(0, k - 34), min(k - 1, 31), min(k - 1, 32)})
            holes = [()] + [(p,) for p in spots] + [(0, k - 1), (max(0, k - 33), k - 1), (0, max(1, k - 33))]
            for base in bases:
                for hs in holes:
                    hs = tuple(sorted(set(hs)))
                    tup = [U if i in hs else b for i, b in enumerate(base)]
                    v = gt.operator(*tup)
                    checked += 1
                    comps = []
                    for fill in itertools.product((False, True), repeat=len(hs)):
                        vals = list(base)
                        for i, b in zip(hs, fill):
                            vals[i] = b
                        comps.append(bool(refsem.apply_gate(name, [1 if x else 0 for x in vals], 1) & 1))
                    what = f'{name} over {k} operands (pattern {bases.index(base)}, undefined at {list(hs)})'
                    if v is True or v is False:
                        if any(cv is not v for cv in comps):
                            raise Violation('operator_unsound', f'{what} = {v} but completions give {comps}')
                    elif not (v == U):
                        raise Violation('operator_bad_value', f'{what} = {v!r}')
                    elif not hs:
                        raise Violation('operator_undefined_on_total', f'{what} is Undefined')
    return {'evaluations': checked, 'distinct_nontrivial': checked, 'exhaustive': True,
            'samples': ['every operator x every operand tuple in {F,T,U}^k, k<=4; n-ary operators over 5-70 (257) operands on structured tuples with 0-2 undefined positions']}


SPEC = {
    'id': 'C15',
    'rule': ('Hypothesis netlists (1-4 inputs, 5 in thorough; all types/arities) x ALL 3^n partial assignments '
             '(undefined inputs omitted or passed as Undefined) x evaluate_circuit / evaluate_full_circuit / '
             'evaluate_circuit_outputs; oracle: every True/False gate value is constant on the cube of completions '
             '(one big-int operation against the reference full table), every one-step refinement keeps defined '
             'values, total assignments leave no evaluated gate Undefined. Finite part: all operators x all '
             'operand tuples over {F,T,U}. Sub-check dict_reuse: the caller keeps one assignment dictionary across a generated '
             'sequence of evaluations through the three entry points while defining / changing / undefining inputs in place; every '
             'answer must be sound for the inputs fixed at that moment. Non-trivial: some gate is defined while an input it structurally '
             'depends on is undefined.'
             ' Added during the build: zero-input circuits, circuits looked at and then partly fixed (replace_inputs) before evaluation, evaluation of what into_bench leaves behind, explicit outputs= selections as lists and tuples, transported Undefined marks, defined values spelled 0 / 1, n-ary operators over 5-70 (257) operands on structured tuples.'),
    'assumptions': ['reference full tables from vlib/refsem.py'],
    'subs': [Sub('partial', cases, check_partial, {'quick': 1500, 'thorough': 75000}),
             Sub('dict_reuse', reuse_cases, check_reuse, {'quick': 1500, 'thorough': 50000})],
    'exhaustive': {'operator_tables': operator_tables},
    'required_classes': {'partial': ['nary>=3', 'LR_gate', 'cmp_gate', 'constant', 'dup_operand', 'dead_gate', 'zero_inputs', 'after_into_bench', 'after_fix_inputs', 'values_as_0_1']},
}
