"""C19 - local rewrites keep or specialise the function exactly as documented."""

from __future__ import annotations

import collections

from hypothesis import strategies as st

from props.c12 import dnf_netlist
from vlib import build, gen, refsem, wellformed
from vlib.env import cirbo_core, UuidStream
from vlib.runner import Sub, Violation


def _blocks(draw, nl, maxb=2):
    labs = [g[0] for g in nl['gates']]
    blocks = []
    if labs:
        for b in range(draw(st.integers(0, maxb))):
            members = sorted({draw(st.integers(0, len(labs) - 1)) for _ in range(draw(st.integers(1, 5)))})
            ins = sorted({draw(st.integers(0, len(labs) - 1)) for _ in range(draw(st.integers(0, 2)))})
            outs = [members[-1]] + ([members[0]] if draw(st.booleans()) else [])
            blocks.append({'name': f'blk{b}', 'gates': members, 'inputs': ins, 'outputs': outs})
    return blocks


def _make_blocks(c, nl, blocks):
    labs = [g[0] for g in nl['gates']]
    for b in blocks:
        c.make_block(b['name'], [labs[i] for i in b['gates']], [labs[i] for i in b['outputs']],
                     inputs=[labs[i] for i in b['inputs']])


# ---------------------------------------------------------------------------
# rename_gate


@st.composite
def rename_cases(draw, tier):
    nl = draw(gen.netlists(min_inputs=0, max_inputs=5, min_gates=0, max_gates=16, max_arity=4,
                           styles=('plain', 'digits', 'mixed'), max_outputs=5, const_operands=(0, 0, 2)))
    n = len(nl['gates'])
    return {'nl': nl, 'route': draw(gen.routes(nl)), 'blocks': _blocks(draw, nl),
            'target': draw(st.integers(0, max(n - 1, 0))), 'other': draw(st.integers(0, max(n - 1, 0))),
            'mode': draw(st.sampled_from(['fresh', 'fresh', 'fresh', 'existing', 'absent', 'self']))}


def check_rename(case):
    core = cirbo_core()
    nl = case['nl']
    if not nl['gates']:
        return {'nt': False, 'cls': {'empty'}}
    c = build.build(nl, case['route'])
    _make_blocks(c, nl, case['blocks'])
    labs = [g[0] for g in nl['gates']]
    old = labs[case['target']]
    mode = case['mode']
    before = wellformed.snapshot(c)
    if mode in ('existing', 'self'):
        new = old if mode == 'self' else labs[case['other']]
        try:
            c.rename_gate(old, new)
        except core.cexc.CircuitGateAlreadyExistsError:
            if wellformed.snapshot(c) != before:
                raise Violation('rename_error_mutated', 'failed rename modified the circuit')
            return {'nt': False, 'cls': {'mode:' + mode}}
        raise Violation('rename_existing_accepted', f'rename_gate({old!r}, {new!r}) onto an existing label did not raise')
    if mode == 'absent':
        try:
            c.rename_gate('__no_such_gate__', 'zz_new')
        except core.cexc.CircuitGateIsAbsentError:
            if wellformed.snapshot(c) != before:
                raise Violation('rename_error_mutated', 'failed rename modified the circuit')
            return {'nt': False, 'cls': {'mode:absent'}}
        raise Violation('rename_absent_accepted', 'renaming an absent gate did not raise')
    new = 'renamed_' + old[::-1]
    k = 0
    while new in labs:
        k += 1
        new = f'renamed{k}_' + old
    # a second circuit assembled from the very same Gate objects (gates are values: add_gate stores what it is given)
    twin = core.Circuit()
    for g in c.top_sort(inverse=True):
        twin.add_gate(g)
    twin.set_inputs(list(c.inputs))
    twin.set_outputs(list(c.outputs))
    twin_before = wellformed.snapshot(twin)
    ret = c.rename_gate(old, new)
    if ret is not c:
        raise Violation('rename_return', 'rename_gate does not return the circuit')
    if wellformed.snapshot(twin) != twin_before:
        raise Violation('rename_changes_other_circuit', f'renaming {old!r} in one circuit changed another circuit that holds the same Gate objects')
    f = lambda x: new if x == old else x
    exp = {
        'inputs': [f(x) for x in before['inputs']],
        'outputs': [f(x) for x in before['outputs']],
        'gates': sorted((f(l), t, tuple(f(o) for o in ops)) for l, t, ops in before['gates']),
        'users': {f(l): sorted(f(u) for u in us) for l, us in before['users'].items()},
        'blocks': {name: ([f(x) for x in i], [f(x) for x in g], [f(x) for x in o]) for name, (i, g, o) in before['blocks'].items()},
    }
    after = wellformed.snapshot(c)
    after['gates'] = sorted(after['gates'])
    for key in exp:
        if after[key] != exp[key]:
            raise Violation('rename_references:' + key, f'after rename {old!r}->{new!r}: {key} = {after[key]!r}, expected {exp[key]!r}')
    if c.has_gate(old):
        raise Violation('rename_old_present', 'old label still present')
    pr = wellformed.problems(c)
    if pr:
        raise Violation('wellformed', '; '.join(pr[:3]))
    t0 = refsem.out_tables(nl)
    t1 = refsem.out_tables(refsem.from_circuit(c))
    if t0 != t1:
        raise Violation('rename_truth_table', 'truth table changed')
    nusers = len(before['users'][old])
    cls = {'mode:fresh'}
    if nusers:
        cls.add('has_users')
    if old in nl['outputs']:
        cls.add('is_output')
        if nl['outputs'].count(old) > 1:
            cls.add('repeated_output')
    if old in nl['inputs']:
        cls.add('is_input')
    if any(old in (i + g + o) for (i, g, o) in before['blocks'].values()):
        cls.add('in_block')
    if any(us.count(old) > 1 for us in before['users'].values()):
        cls.add('dup_operand_use')
    return {'nt': bool(nusers) or old in nl['outputs'], 'cls': cls,
            'sample': {'bench': build.bench_text(nl), 'rename': [old, new]}}


# ---------------------------------------------------------------------------
# replace_inputs


@st.composite
def repl_inputs_cases(draw, tier):
    nl = draw(gen.netlists(min_inputs=1, max_inputs=5, max_gates=16, max_arity=4, styles=('plain', 'digits', 'mixed'),
                           max_outputs=4))
    n = len(nl['inputs'])
    assign = [draw(st.sampled_from(['keep', 'keep', 'true', 'false'])) for _ in range(n)]
    whole = draw(st.sampled_from([None, None, None, None, 'true', 'false']))
    if whole:
        # every input fixed to the same constant; the natural spelling is c.replace_inputs(c.inputs, [])
        assign = [whole] * n
    return {'nl': nl, 'route': draw(gen.routes(nl)), 'assign': assign, 'shuffle': draw(st.booleans()),
            'bad': draw(st.integers(0, 9)) == 0, 'live': bool(whole) and draw(st.booleans()),
            # the circuit was looked at before (positions asked, an input renamed) and is rewritten again afterwards
            'looked': draw(st.booleans()), 'then_rename': draw(st.integers(0, 8))}


def check_replace_inputs(case):
    core = cirbo_core()
    nl = case['nl']
    c = build.build(nl, case['route'])
    ins = nl['inputs']
    to_t = [x for x, a in zip(ins, case['assign']) if a == 'true']
    to_f = [x for x, a in zip(ins, case['assign']) if a == 'false']
    if case['shuffle']:
        to_t, to_f = to_t[::-1], to_f[::-1]
    noninputs = [g[0] for g in nl['gates'] if g[1] != 'INPUT']
    if case['bad'] and noninputs:
        try:
            c.replace_inputs([noninputs[0]], [])
        except core.cexc.GateNotInputError:
            return {'nt': False, 'cls': {'non_input_rejected'}}
        raise Violation('replace_inputs_non_input', 'replacing a non-input gate did not raise GateNotInputError')
    if case.get('looked'):
        build.observe(c)
        if ins:
            c.rename_gate(ins[-1], '__looked__')
            c.rename_gate('__looked__', ins[-1])
    live = case.get('live') and (to_t == list(c.inputs) or to_f == list(c.inputs))
    if live:
        # the circuit's own inputs list as the argument
        ret = c.replace_inputs(c.inputs, []) if to_t else c.replace_inputs([], c.inputs)
    else:
        ret = c.replace_inputs(to_t, to_f)
    if ret is not c:
        raise Violation('replace_inputs_return', 'does not return the circuit')
    remaining = [x for x, a in zip(ins, case['assign']) if a == 'keep']
    if list(c.inputs) != remaining:
        raise Violation('replace_inputs_inputs', f'inputs {list(c.inputs)} expected {remaining}')
    if list(c.outputs) != nl['outputs']:
        raise Violation('replace_inputs_outputs', 'outputs changed')
    pr = wellformed.problems(c)
    if pr:
        raise Violation('wellformed', '; '.join(pr[:3]))
    # cofactor of the original table over the remaining inputs in their original order
    n = len(ins)
    t0 = refsem.tables(nl)
    res_nl = refsem.from_circuit(c)
    t1 = refsem.tables(res_nl)
    k = len(remaining)
    for r in range(1 << k):
        j = 0
        bits = iter(bool((r >> (k - 1 - q)) & 1) for q in range(k))
        for x, a in zip(ins, case['assign']):
            v = next(bits) if a == 'keep' else (a == 'true')
            j = (j << 1) | (1 if v else 0)
        for o in nl['outputs']:
            if ((t0[o] >> j) & 1) != ((t1[o] >> r) & 1):
                raise Violation('replace_inputs_cofactor', f'output {o} on remaining-input row {r:0{k}b}: not the cofactor for true={to_t} false={to_f}')
    cls = {f'fixed={min(len(to_t) + len(to_f), 3)}'}
    if to_t and to_f:
        cls.add('both')
    if any(x in nl['outputs'] for x in to_t + to_f):
        cls.add('fixed_input_is_output')
    if live:
        cls.add('live_inputs_list')
    if not remaining:
        cls.add('all_fixed')
    if remaining and 'then_rename' in case:
        # another local rewrite on what is left: rename one of the remaining inputs
        old = remaining[case['then_rename'] % len(remaining)]
        c.rename_gate(old, '__renamed_after__')
        want = ['__renamed_after__' if x == old else x for x in remaining]
        if list(c.inputs) != want:
            raise Violation('rename_after_replace_inputs', f'inputs {list(c.inputs)} expected {want} (fixed true={to_t} false={to_f}, then renamed {old!r})')
        pr = wellformed.problems(c)
        if pr:
            raise Violation('wellformed', 'after replace_inputs then rename_gate: ' + '; '.join(pr[:3]))
        if [c.index_of_input(x) for x in want] != list(range(len(want))):
            raise Violation('rename_after_replace_inputs', 'index_of_input disagrees with the inputs list')
        if case.get('looked'):
            cls.add('looked_fixed_renamed')
    return {'nt': bool(to_t or to_f) and gen.nontrivial_basic(nl), 'cls': cls}


# ---------------------------------------------------------------------------
# remove_gate


@st.composite
def remove_cases(draw, tier):
    nl = draw(gen.netlists(min_inputs=0, max_inputs=4, min_gates=0, max_gates=14, max_arity=4,
                           styles=('plain', 'digits', 'mixed'), max_outputs=5))
    n = len(nl['gates'])
    return {'nl': nl, 'route': draw(gen.routes(nl)), 'blocks': _blocks(draw, nl),
            'target': draw(st.integers(0, max(n - 1, 0))), 'absent': draw(st.integers(0, 11)) == 0}


def check_remove(case):
    core = cirbo_core()
    nl = case['nl']
    if not nl['gates']:
        return {'nt': False, 'cls': {'empty'}}
    c = build.build(nl, case['route'])
    _make_blocks(c, nl, case['blocks'])
    labs = [g[0] for g in nl['gates']]
    if case['absent']:
        try:
            c.remove_gate('__no_such_gate__')
        except core.CirboError:
            return {'nt': False, 'cls': {'absent_rejected'}}
        raise Violation('remove_absent_accepted', 'removing an absent gate did not raise')
    target = labs[case['target']]
    users = [l for l, _, ops in nl['gates'] if target in ops]
    before = wellformed.snapshot(c)
    try:
        ret = c.remove_gate(target)
    except core.cexc.GateHasUsersError:
        if not users:
            raise Violation('remove_refused', f'gate {target} has no users but remove_gate raised GateHasUsersError')
        if wellformed.snapshot(c) != before:
            raise Violation('remove_error_mutated', 'refused removal modified the circuit')
        return {'nt': True, 'cls': {'has_users'}}
    if users:
        raise Violation('remove_used_gate', f'gate {target} used by {users} was removed')
    if ret is not c:
        raise Violation('remove_return', 'does not return the circuit')
    if c.has_gate(target) or target in c.inputs or target in c.outputs:
        raise Violation('remove_left_behind', f'{target} still referenced in gates/inputs/outputs')
    exp_out = [o for o in nl['outputs'] if o != target]
    exp_in = [i for i in nl['inputs'] if i != target]
    if list(c.outputs) != exp_out or list(c.inputs) != exp_in:
        raise Violation('remove_interface', f'inputs {list(c.inputs)} outputs {list(c.outputs)} expected {exp_in} {exp_out}')
    pr = wellformed.problems(c)
    if pr:
        raise Violation('wellformed', '; '.join(pr[:3]))
    cls = {'removed'}
    if target in nl['outputs']:
        cls.add('was_output')
    if target in nl['inputs']:
        cls.add('was_input')
    return {'nt': target in nl['outputs'], 'cls': cls}


# ---------------------------------------------------------------------------
# replace_subcircuit


def _reed_muller_netlist(n, cols, prefix):
    """XOR-of-ANDs (algebraic normal form) circuit for the table; inputs prefix+'i<k>'."""
    ins = [f'{prefix}i{k}' for k in range(n)]
    gates = [[x, 'INPUT', []] for x in ins]
    outs = []
    for oi, col in enumerate(cols):
        # Moebius transform over subsets of inputs; row index j big-endian: input k <-> bit (n-1-k)
        coef = [(col >> j) & 1 for j in range(1 << n)]
        for b in range(n):
            for j in range(1 << n):
                if j & (1 << b):
                    coef[j] ^= coef[j ^ (1 << b)]
        terms = []
        const = coef[0]
        for j in range(1, 1 << n):
            if coef[j]:
                lits = [ins[k] for k in range(n) if j & (1 << (n - 1 - k))]
                if len(lits) == 1:
                    terms.append(lits[0])
                else:
                    lab = f'{prefix}t{oi}_{j}'
                    gates.append([lab, 'AND', lits])
                    terms.append(lab)
        out = f'{prefix}o{oi}'
        if not terms:
            gates.append([out, 'ALWAYS_TRUE' if const else 'ALWAYS_FALSE', []])
        elif len(terms) == 1:
            gates.append([out, 'NOT' if const else 'IFF', [terms[0]]])
        else:
            gates.append([out, 'NXOR' if const else 'XOR', terms])
        outs.append(out)
    return {'inputs': ins, 'gates': gates, 'outputs': outs}


@st.composite
def subcircuit_cases(draw, tier):
    nl = draw(gen.netlists(min_inputs=1, max_inputs=5, min_gates=2, max_gates=18 if tier == 'thorough' else 14,
                           max_arity=3, styles=('plain', 'mixed'), min_outputs=1, max_outputs=4))
    fault = draw(st.sampled_from(['none', 'none', 'none', 'unlisted_fanout', 'unlisted_fanout', 'unlisted_fanout', 'non_input_mapped',
                                  'missing_input', 'label_collision', 'overlap_keys', 'unread_unmapped_input', 'downstream_input',
                                  'crossed_output_labels']))
    grow = [draw(st.integers(0, 40)) for _ in range(draw(st.integers(0, 6)))]
    if fault == 'unlisted_fanout' and draw(st.integers(0, 3)) != 0:
        # a cut point that reads an interior gate of the cone (non-convex cut) next to an unlisted fan-out
        grow = [draw(st.integers(25, 40)) for _ in range(draw(st.integers(1, 3)))] + grow[:2]
    roots = [draw(st.integers(0, 40)) for _ in range(draw(st.integers(1, 2)))]
    if fault == 'unlisted_fanout' and draw(st.integers(0, 5)) == 0:
        # by construction: a two-gate cone {nc_a, nc_r} whose cut point nc_b reads the interior gate nc_a, the only other
        # reader of nc_a being the root - the unlisted fan-out then leads into a cut point only
        used = {g[0] for g in nl['gates']}
        a, b, r = [x if x not in used else x + '_' for x in ('nc_a', 'nc_b', 'nc_r')]
        p, q = nl['inputs'][0], nl['inputs'][-1]
        t = [draw(st.sampled_from(['AND', 'OR', 'XOR', 'NAND', 'GT', 'LEQ'])) for _ in range(3)]
        nl = dict(nl, gates=nl['gates'] + [[a, t[0], [p, q]], [b, t[1], [a, p]], [r, t[2], [b, a]]], outputs=nl['outputs'] + [r])
        roots = [sum(1 for g in nl['gates'] if g[1] != 'INPUT') - 1]
        grow = [25]
    unmark = draw(st.sampled_from([0, 0, 0, 1, 2]))
    if fault == 'downstream_input' and draw(st.booleans()):
        # by construction: the cone is one gate in DEAD logic (no output reads it) with a dead user; the replacement is
        # made to read that user, and its mapped output is not marked - a cycle that only a search starting at the
        # inserted gates themselves can see
        used = {g[0] for g in nl['gates']}
        a, u = [x if x not in used else x + '_' for x in ('dd_a', 'dd_u')]
        p, q = nl['inputs'][0], nl['inputs'][-1]
        t = draw(st.sampled_from(['AND', 'OR', 'XOR', 'NOR', 'LT']))
        nl = dict(nl, gates=nl['gates'] + [[a, t, [p, q]], [u, draw(st.sampled_from(['NOT', 'IFF'])), [a]]])
        roots = [sum(1 for g in nl['gates'] if g[1] != 'INPUT') - 2]
        grow = []
        unmark = draw(st.sampled_from([1, 1, 2, 0]))
    return {'nl': nl, 'route': draw(gen.routes(nl)), 'blocks': _blocks(draw, nl) if draw(st.booleans()) else [],
            'roots': roots,
            'grow': grow,
            'form': draw(st.sampled_from(['dnf', 'rm', 'chain'])),
            'label_mode': draw(st.sampled_from(['fresh', 'fresh', 'same_boundary'])),
            'fault': fault,
            'reuse_victim_label': draw(st.booleans()),
            'unmark': unmark,
            # the replacement is a circuit like any other: parsed from text with forward references, renamed, ...
            'sub_route': draw(gen.free_routes()),
            'uuid_seed': draw(st.integers(0, 2 ** 20))}


def plan_replacement(nl, roots_idx, grow_idx, form, label_mode, prefix='rs_'):
    """Cone grown from chosen gates down to a boundary + an independently synthesised equivalent replacement.
    Returns None (no cone possible) or a dict."""
    typ = {g[0]: g[1] for g in nl['gates']}
    ops = {g[0]: list(g[2]) for g in nl['gates']}
    non_inputs = [l for l in typ if typ[l] != 'INPUT']
    if not non_inputs:
        return None
    roots = list(dict.fromkeys(non_inputs[r % len(non_inputs)] for r in roots_idx))
    S = set(roots)
    for gidx in grow_idx:
        frontier = sorted({o for s in S for o in ops[s] if o not in S and typ[o] != 'INPUT'})
        if not frontier:
            break
        f = frontier[gidx % len(frontier)]
        skipped = [o for o in ops[f] if typ[o] != 'INPUT' and o not in S]
        if gidx >= 25 and skipped:
            # jump over f: one of ITS operands joins the cone while f stays a cut point that reads the cone
            # (a non-convex cut; such requests may be refused, but never answered wrongly)
            S.add(skipped[gidx % len(skipped)])
        else:
            S.add(f)
    order = [l for l in refsem.own_toposort(nl) if l in S]
    I = list(dict.fromkeys(o for s in order for o in ops[s] if o not in S))
    if len(I) > 5:
        return {'too_wide': True}
    users = collections.defaultdict(list)
    for l in typ:
        for o in ops[l]:
            users[o].append(l)
    # cone outputs: roots + every cone gate used outside the cone or listed as circuit output
    need_out = [s for s in order if s in roots or any(u not in S for u in users[s]) or s in nl['outputs']]
    # the cone as a function of its free boundary
    sub_src = {'inputs': I, 'gates': [[i, 'INPUT', []] for i in I] + [[s, typ[s], ops[s]] for s in order],
               'outputs': need_out}
    cols = refsem.out_tables(sub_src)
    k = len(I)
    if k == 0:
        # constant cone: replacement needs no inputs
        rep = {'inputs': [], 'gates': [[f'{prefix}o{q}', 'ALWAYS_TRUE' if c & 1 else 'ALWAYS_FALSE', []] for q, c in enumerate(cols)],
               'outputs': [f'{prefix}o{q}' for q in range(len(cols))]}
    elif form == 'chain' and len(cols) >= 2:
        # outputs feed each other inside the replacement: out_q = XOR(out_{q-1}, DNF(col_q ^ col_{q-1}))
        deltas = [cols[0]] + [cols[q] ^ cols[q - 1] for q in range(1, len(cols))]
        base = dnf_netlist(k, deltas)
        ren = lambda x: prefix + x
        gates = [[ren(l), t, [ren(o) for o in op]] for l, t, op in base['gates']]
        outs = [ren(base['outputs'][0])]
        for q in range(1, len(cols)):
            lab = f'{prefix}c{q}'
            gates.append([lab, 'XOR', [outs[-1], ren(base['outputs'][q])]])
            outs.append(lab)
        rep = {'inputs': [ren(x) for x in base['inputs']], 'gates': gates, 'outputs': outs}
    elif form in ('dnf', 'chain'):
        base = dnf_netlist(k, cols)
        ren = lambda x: prefix + x
        rep = {'inputs': [ren(x) for x in base['inputs']], 'gates': [[ren(l), t, [ren(o) for o in op]] for l, t, op in base['gates']],
               'outputs': [ren(x) for x in base['outputs']]}
    else:
        rep = _reed_muller_netlist(k, cols, prefix)
    if label_mode == 'same_boundary':
        m = {**dict(zip(rep['inputs'], I)), **dict(zip(rep['outputs'], need_out))}
        rn = lambda x: m.get(x, x)
        rep = {'inputs': [rn(x) for x in rep['inputs']], 'gates': [[rn(l), t, [rn(o) for o in op]] for l, t, op in rep['gates']],
               'outputs': [rn(x) for x in rep['outputs']]}
    downstream = any(refsem.reachable(nl, [i]) & S for i in I)
    return {'S': S, 'I': I, 'roots': roots, 'need_out': need_out, 'rep': rep, 'k': k,
            'inputs_mapping': dict(zip(I, rep['inputs'])), 'outputs_mapping': dict(zip(need_out, rep['outputs'])),
            'boundary_depends_on_cone': downstream}


def with_downstream_input(nl, S, I, need_out, rep, inputs_mapping, outputs_mapping):
    """The replacement additionally reads (without changing its function) a gate that itself depends on one of the
    replaced gates: a syntactic cycle, to be refused wherever it lies - also in dead logic, also when the mapped output
    is not marked as an output of the replacement. Updates the two mappings in place; returns the new replacement
    netlist or None when the cone has no such user."""
    users_of = collections.defaultdict(list)
    for l2, _, o2 in nl['gates']:
        for o in o2:
            users_of[o].append(l2)
    cand = [(v, u) for v in need_out if v in outputs_mapping for u in users_of[v] if u not in S and u not in I]
    if not cand:
        return None
    v, u = cand[0]
    old_o = outputs_mapping[v]
    new_rep = {'inputs': list(rep['inputs']) + ['rs_dn'],
               'gates': [['rs_dn', 'INPUT', []]] + [list(g) for g in rep['gates']]
               + [['rs_dn_n', 'NOT', ['rs_dn']], ['rs_dn_z', 'AND', ['rs_dn', 'rs_dn_n']], ['rs_dn_o', 'OR', [old_o, 'rs_dn_z']]],
               'outputs': [('rs_dn_o' if o == old_o else o) for o in rep['outputs']]}
    outputs_mapping[v] = 'rs_dn_o'
    inputs_mapping[u] = 'rs_dn'
    return new_rep


def _benchable(label: str) -> bool:
    return bool(label) and all(ch.isalnum() or ch in '_' for ch in label) and not label.upper().startswith(('INPUT', 'OUTPUT'))


def check_subcircuit(case):
    core = cirbo_core()
    nl = case['nl']
    typ = {g[0]: g[1] for g in nl['gates']}
    plan = plan_replacement(nl, case['roots'], case['grow'], case['form'], case['label_mode'])
    if plan is None:
        return {'nt': False, 'cls': {'no_gates'}}
    if plan.get('too_wide'):
        return {'nt': False, 'cls': {'boundary_too_wide'}}
    S, I, roots, need_out, rep, k = plan['S'], plan['I'], plan['roots'], plan['need_out'], plan['rep'], plan['k']
    inputs_mapping, outputs_mapping = plan['inputs_mapping'], plan['outputs_mapping']
    downstream_boundary = plan['boundary_depends_on_cone']
    fault = case['fault']
    applied = 'none'
    victim_to_cut_point = False
    if fault == 'unlisted_fanout':
        extra = [s for s in need_out if s not in roots]
        if extra:
            # prefer a cone gate whose users outside the cone are all cut points
            pref = [s for s in extra if s not in nl['outputs'] and all(u in S or u in I for l2, _, o2 in nl['gates'] for u in [l2] if s in o2)]
            victim = (pref or extra)[0]
            victim_to_cut_point = bool(pref)
            del outputs_mapping[victim]
            idx = need_out.index(victim)
            dropped = rep['outputs'][idx]
            rep = dict(rep, outputs=[o for q, o in enumerate(rep['outputs']) if q != idx])
            # the label of the unlisted gate may turn up inside the replacement on some unrelated gate
            other_internal = [g[0] for g in rep['gates'] if g[1] != 'INPUT' and g[0] not in rep['outputs'] and g[0] != dropped]
            if case.get('reuse_victim_label') and other_internal and victim not in [g[0] for g in rep['gates']]:
                tgt = other_internal[0]
                rn2 = lambda x: victim if x == tgt else x
                rep = {'inputs': rep['inputs'], 'gates': [[rn2(l), t, [rn2(o) for o in op]] for l, t, op in rep['gates']],
                       'outputs': rep['outputs']}
            applied = fault
    elif fault == 'non_input_mapped' and I:
        non_in = [g[0] for g in rep['gates'] if g[1] != 'INPUT' and g[0] not in outputs_mapping.values()]
        if non_in:
            inputs_mapping[I[0]] = non_in[0]
            applied = fault
    elif fault == 'missing_input' and I:
        del inputs_mapping[I[0]]
        applied = fault
    elif fault == 'label_collision':
        outside = [l for l in typ if l not in S and l not in I]
        internal = [g for g in rep['gates'] if g[1] != 'INPUT' and g[0] not in rep['outputs']]
        if outside and internal:
            victim = internal[0][0]
            rn = lambda x: outside[0] if x == victim else x
            rep = {'inputs': rep['inputs'], 'gates': [[rn(l), t, [rn(o) for o in op]] for l, t, op in rep['gates']],
                   'outputs': rep['outputs']}
            applied = fault
    elif fault == 'crossed_output_labels' and len(need_out) >= 2 and case['label_mode'] == 'fresh':
        # the replacement's outputs carry the labels of the host's cone outputs - crossed over: the one standing in for
        # need_out[i] is called need_out[i+1].  Equivalent under the stated correspondence; to be carried out right or refused
        k2 = len(need_out)
        ren = {outputs_mapping[v]: need_out[(i + 1) % k2] for i, v in enumerate(need_out)}
        if len(set(ren)) == k2 and not (set(ren.values()) & {g[0] for g in rep['gates']}):
            rn = lambda x: ren.get(x, x)
            rep = {'inputs': [rn(x) for x in rep['inputs']], 'gates': [[rn(l), t, [rn(o) for o in op]] for l, t, op in rep['gates']],
                   'outputs': [rn(x) for x in rep['outputs']]}
            for v in need_out:
                outputs_mapping[v] = rn(outputs_mapping[v])
            applied = fault
    elif fault == 'unread_unmapped_input':
        # the replacement declares one more input that nothing in it reads and that has no counterpart in the host
        # (a block synthesised for a fixed arity): to be refused - or at least the host must keep its interface
        extra = 'rs_spare_input'
        rep = {'inputs': list(rep['inputs']) + [extra], 'gates': [[extra, 'INPUT', []]] + [list(g) for g in rep['gates']],
               'outputs': rep['outputs']}
        applied = fault
    elif fault == 'downstream_input':
        got = with_downstream_input(nl, S, I, need_out, rep, inputs_mapping, outputs_mapping)
        if got is not None:
            rep = got
            applied = fault
    elif fault == 'overlap_keys' and I and need_out:
        inputs_mapping[need_out[0]] = rep['inputs'][0]
        applied = fault
    c = build.build(nl, case['route'])
    _make_blocks(c, nl, case.get('blocks', []))
    sub_nl = {'inputs': rep['inputs'], 'gates': rep['gates'], 'outputs': rep['outputs']}
    sub_route = case.get('sub_route')
    if sub_route and sub_route['kind'] == 'bench' and not all(_benchable(g[0]) for g in rep['gates']):
        sub_route = {'kind': 'rename', 'moves': sub_route.get('keys', [1, 2])}
    sub = build.build(sub_nl, sub_route)
    if case.get('unmark') and len(rep['outputs']) >= 1:
        # outputs_mapping may name gates the replacement does not mark as its outputs (only existence is required)
        sub.set_outputs(list(rep['outputs'][:case['unmark'] - 1]))
    t_before = refsem.out_tables(nl)
    n_in, n_out = len(nl['inputs']), len(nl['outputs'])
    with UuidStream(case['uuid_seed']):
        try:
            ret = c.replace_subcircuit(sub, dict(inputs_mapping), dict(outputs_mapping))
        except core.cexc.CircuitError as e:
            if applied == 'none' and not downstream_boundary:
                raise Violation('valid_replacement_rejected',
                                f'{type(e).__name__} for cone {sorted(S)} boundary {I} outputs {need_out} labels={case["label_mode"]}')
            dedicated = ('ReplaceSubcircuitError', 'CreateBlockError', 'DeleteBlockError', 'CircuitValidationError')
            if type(e).__name__ not in dedicated and wellformed.basic_problems(c):
                # not a refusal: the call broke off half-way with an unrelated error and left an ill-formed circuit behind
                raise Violation('broke_off_halfway', f'{type(e).__name__}: {e} (fault={applied}); the circuit is ill-formed afterwards: '
                                                     f'{wellformed.basic_problems(c)[:2]}')
            return {'nt': len(S) >= 2, 'cls': {'raised:' + type(e).__name__, 'fault:' + applied}
                    | ({'unlisted_fanout_into_cut_point'} if victim_to_cut_point else set())}
    if ret is not c:
        raise Violation('replace_return', 'does not return the circuit')
    res = refsem.from_circuit(c)
    if len(res['inputs']) != n_in or len(res['outputs']) != n_out:
        raise Violation('replace_interface', f'{n_in}/{n_out} inputs/outputs became {len(res["inputs"])}/{len(res["outputs"])}')
    # (input / output order is checked positionally by the truth-table comparison below)
    pr = wellformed.problems(c)
    if pr:
        raise Violation('wellformed', '; '.join(pr[:3]))
    try:
        t_after = refsem.out_tables(res)
    except (refsem.ArityError, ValueError, KeyError) as e:
        raise Violation('result_malformed', str(e))
    if t_after != t_before:
        raise Violation('replace_truth_table', f'truth table changed (fault={applied}); cone {sorted(S)} boundary {I} outputs {need_out}')
    cls = {'replaced', 'fault:' + applied, 'form:' + case['form'], 'labels:' + case['label_mode'], f'boundary={k}'}
    if case.get('blocks'):
        cls.add('host_has_blocks')
    if len(need_out) > len(roots):
        cls.add('extra_outputs')
    if any(o in nl['outputs'] for o in need_out):
        cls.add('cone_output_is_circuit_output')
    if any(typ[i] == 'INPUT' for i in I):
        cls.add('boundary_has_circuit_input')
    if downstream_boundary:
        cls.add('boundary_depends_on_cone')
    return {'nt': len(S) >= 2 and applied == 'none', 'cls': cls,
            'sample': {'bench': build.bench_text(nl), 'cone': sorted(S), 'boundary': I, 'outputs': need_out,
                       'replacement': build.bench_text({'inputs': rep['inputs'], 'gates': rep['gates'], 'outputs': rep['outputs']})}}


# ---------------------------------------------------------------------------
# deep circuits: the same rewrites on chains of hundreds to thousands of gates (finite sweep)

DEEP = {'quick': [120, 500, 1200, 2400], 'thorough': [120, 500, 900, 1000, 1100, 1200, 2400, 5000]}
DEEP_OPS = ['replace_subcircuit', 'rename_bottom', 'rename_top', 'remove_top', 'replace_inputs']


def deep_host(d):
    gates = [['a', 'INPUT', []], ['b', 'INPUT', []], ['g0', 'AND', ['a', 'b']]]
    prev = 'g0'
    for i in range(1, d + 1):
        gates.append([f'n{i}', 'NOT', [prev]] if i % 7 else [f'n{i}', 'XOR', [prev, 'b']])
        prev = f'n{i}'
    gates += [['out', 'OR', [prev, 'b']], ['spare', 'NOT', ['out']]]
    return {'inputs': ['a', 'b'], 'gates': gates, 'outputs': ['out', 'g0'], 'style': 'plain'}


def run_deep(case):
    core = cirbo_core()
    d, op = case['d'], case['op']
    nl = deep_host(d)
    c = build.build(nl)
    t0 = refsem.tables(nl)
    want = [t0[o] for o in nl['outputs']]
    what = f'{op} on a chain of {d} gates'
    exp_inputs, exp_n_out = ['a', 'b'], 2
    try:
        if op == 'replace_subcircuit':
            # the whole chain n1..nd, cut at g0 / b, root nd: replaced by an independently built equivalent
            cone = {'inputs': ['g0', 'b'], 'gates': [['g0', 'INPUT', []], ['b', 'INPUT', []]] + [list(g) for g in nl['gates'][3:3 + d]],
                    'outputs': [f'n{d}']}
            tc = refsem.tables(cone)[f'n{d}']
            sub_nl = _reed_muller_netlist(2, [tc], 'dp_')
            # (the replacement names its inputs like the cut points they stand for: mapped host gates take the replacement's labels)
            r = dict(zip(sub_nl['inputs'], ['g0', 'b']))
            sub_nl = {'inputs': ['g0', 'b'], 'gates': [[r.get(l, l), t, [r.get(o, o) for o in ops]] for l, t, ops in sub_nl['gates']],
                      'outputs': [r.get(o, o) for o in sub_nl['outputs']]}
            sub = build.build(sub_nl)
            c.replace_subcircuit(sub, dict(zip(['g0', 'b'], sub_nl['inputs'])), {f'n{d}': sub_nl['outputs'][0]})
        elif op == 'rename_bottom':
            c.rename_gate('g0', 'renamed_bottom')
            want = want
        elif op == 'rename_top':
            c.rename_gate(f'n{d}', 'renamed_top')
        elif op == 'remove_top':
            c.remove_gate('spare')
        else:
            c.replace_inputs(['a'], [])
            exp_inputs = ['b']
            want = None
    except core.CirboError as e:
        raise Violation('deep:valid_request_rejected', f'{what} raised {type(e).__name__}: {e}')
    pr = wellformed.problems(c)
    if pr:
        raise Violation('deep:wellformed', f'after {what}: ' + '; '.join(pr[:3]))
    if list(c.inputs) != exp_inputs or len(c.outputs) != exp_n_out:
        raise Violation('deep:interface', f'after {what}: inputs {list(c.inputs)}, {len(c.outputs)} outputs')
    res = refsem.from_circuit(c)
    try:
        got = refsem.out_tables(res)
    except (refsem.ArityError, ValueError, KeyError, AssertionError) as e:
        raise Violation('deep:result_malformed', f'after {what}: {e}')
    if want is None:
        # a := True: rows of the original table with a = 1 (a is the first input)
        full = [t0[o] for o in nl['outputs']]
        want = [sum((((v >> (2 + j)) & 1) << j) for j in range(2)) for v in full]
    if got != want:
        raise Violation('deep:function', f'after {what}: output tables {got} expected {want}')
    n = len(exp_inputs)
    for j in range(1 << n):
        x = [bool((j >> (n - 1 - i)) & 1) for i in range(n)]
        if c.evaluate(x) != [bool((w >> j) & 1) for w in want]:
            raise Violation('deep:evaluate', f'after {what}: evaluate({x})')
    return d


def deep_sweep(tier, shard, nshards, seed):
    done = 0
    sample = None
    for idx, case in enumerate([{'d': d, 'op': op} for d in DEEP[tier] for op in DEEP_OPS]):
        if idx % nshards != shard:
            continue
        try:
            run_deep(case)
        except Violation as v:
            v.case = case
            raise
        except BaseException as e:  # noqa
            e.case = case
            raise
        done += 1
        sample = case
    return {'evaluations': done, 'distinct_nontrivial': done, 'exhaustive': True, 'samples': [sample] if sample else []}


SPEC = {
    'id': 'C19',
    'rule': ('rename_gate: every kind of gate x fresh / existing / absent / same label on circuits with blocks - expected '
             'bookkeeping (operands, users, inputs, every output position, block lists) computed by a reference renaming of '
             'the snapshot, tt unchanged, wellformed, dedicated errors. replace_inputs: disjoint subsets to True / False (also all inputs, also given as the circuit\'s own live inputs list) - '
             'result == cofactor of the reference table over the remaining inputs in original order. remove_gate: every '
             'gate - succeeds iff no users, gone from gates/inputs/every output position. replace_subcircuit: cone grown '
             'from 1-2 gates down to a generated boundary (<=5), replacement synthesised independently (DNF or '
             'Reed-Muller) from the cone table over the free boundary, fresh or boundary-identical labels; valid requests '
             '(every cone gate used outside listed as output, boundary independent of the cone) must succeed with the '
             'truth table, interface and well-formedness kept; injected faults (unlisted fan-out, non-input mapped, '
             'missing input, label collision, overlapping keys) must raise a CircuitError or still keep the function. '
             'Non-trivial: touched gate has users or is an output; cone of >=2 gates.'
             ' Added during the build: whole-list and live-list replace_inputs, a look at the circuit before and a rename after replace_inputs, replacements reading a gate downstream of the cone, unmarked mapped outputs, cones in dead logic, construction routes for the replacement circuit, crossed output labels, constructive non-convex cuts, and a finite sweep of the four rewrites on chains of 120-2400 (5000) gates.'),
    'assumptions': ['reference tables / snapshots from vlib'],
    'subs': [Sub('rename', rename_cases, check_rename, {'quick': 1500, 'thorough': 100000}),
             Sub('replace_inputs', repl_inputs_cases, check_replace_inputs, {'quick': 1000, 'thorough': 75000}),
             Sub('remove_gate', remove_cases, check_remove, {'quick': 1000, 'thorough': 75000}),
             Sub('replace_subcircuit', subcircuit_cases, check_subcircuit, {'quick': 2000, 'thorough': 150000})],
    'sharded': {'deep': deep_sweep},
    'replay': {'deep': run_deep},
    'required_classes': {'rename': ['has_users', 'is_output', 'repeated_output', 'is_input', 'in_block', 'mode:existing',
                                    'mode:absent', 'dup_operand_use'],
                         'replace_inputs': ['both', 'non_input_rejected', 'live_inputs_list', 'all_fixed'],
                         'remove_gate': ['removed', 'has_users', 'was_output', 'was_input'],
                         'replace_subcircuit': ['replaced', 'extra_outputs', 'cone_output_is_circuit_output',
                                                'fault:unlisted_fanout', 'fault:missing_input', 'fault:label_collision',
                                                'form:rm', 'form:dnf', 'form:chain', 'labels:same_boundary',
                                                'unlisted_fanout_into_cut_point', 'fault:unread_unmapped_input']},
}
