"""C07 - summation generators compute exact sums within the promised basis and size."""

from __future__ import annotations

import math

from hypothesis import strategies as st

from props import arith
from vlib import build, refsem, wellformed
from vlib.env import cirbo_core, UuidStream
from vlib.runner import Sub, Violation

KINDS = ['gen_sum_n_bits', 'gen_weighted_eff', 'gen_weighted_naive', 'add_sum_n_bits', 'add_sum_n_bits_easy',
         'add_weighted_eff', 'add_weighted_naive', 'add_two_numbers', 'add_two_numbers_shift', 'add_pow2_m1']


@st.composite
def cases(draw, tier):
    big = tier == 'thorough'
    kind = draw(st.sampled_from(KINDS + ['add_two_numbers', 'add_two_numbers_shift', 'add_two_numbers_shift']))
    nmax = 24 if big else 14
    case = {'kind': kind, 'basis': draw(arith.basis_spellings()), 'big_endian': draw(st.booleans()),
            'uuid_seed': draw(st.integers(0, 2 ** 20)), 'row_seed': draw(st.integers(0, 2 ** 20))}
    if kind.startswith('gen_'):
        n = draw(st.integers(1, nmax))
        case['n'] = n
        if 'weighted' in kind:
            wmax = draw(st.sampled_from([0, 1, 2, 3, 7]))
            # (weights are mostly small; now and then all of them sit beyond 256, each one an integer object of its own)
            off = draw(st.sampled_from([0] * 6 + [250, 255, 256, 300, 1000]))
            case['weights'] = [draw(st.integers(0, wmax)) + off for _ in range(n)]
        return case
    case['host'] = draw(arith.hosts(min_inputs=1, max_inputs=6 if big else 5, max_gates=10 if big else 7))
    case['host_route'] = draw(arith.gen.routes(case['host']))
    repeat = draw(st.integers(0, 5)) == 0
    # what the caller hands over: private copies, the host's own live inputs / outputs list, or (two-number adders)
    # one and the same list object for both numbers
    case['alias'] = draw(st.sampled_from([None, None, None, 'inputs', 'outputs', 'same_object', 'same_object']
                                         if kind in ('add_two_numbers', 'add_two_numbers_shift') else [None, None, 'inputs', 'outputs']))
    case['hand'] = draw(st.sampled_from(arith.HAND_STYLES))
    if kind in ('add_two_numbers', 'add_two_numbers_shift'):
        # mostly short numbers, sometimes one or both long: lopsided lengths are where shifted adders go wrong
        width = st.one_of(st.integers(1, 6), st.integers(1, 6), st.integers(7, 20))
        na, nb = draw(width), draw(width)
        case['a'] = arith.operand_picks(draw, na, allow_repeat=True)
        case['b'] = arith.operand_picks(draw, nb, allow_repeat=True)
        if kind == 'add_two_numbers_shift':
            case['shift'] = draw(st.one_of(st.integers(0, na + 3), st.sampled_from([max(na - 1, 0), na, na + 1, na + 2])))
    else:
        # operands are gates of the host, so long operand lists cost nothing extra to evaluate; the block sizes of
        # the 2^k-1 scheme (3, 7, 15, 31) have to be crossed
        n = draw(st.one_of(st.integers(1, 12 if big else 9), st.integers(1, 12 if big else 9), st.integers(10, 40)))
        case['ops'] = arith.operand_picks(draw, n, allow_repeat=True if repeat else True)
        if 'weighted' in kind:
            wmax = draw(st.sampled_from([0, 1, 2, 3, 7, 19]))
            off = draw(st.sampled_from([0] * 6 + [250, 255, 256, 300, 1000]))
            case['weights'] = [draw(st.integers(0, wmax)) + off for _ in range(n)]
    return case


def _bound(kind, basis_name, n, m):
    if basis_name == 'AIG':
        return 7 * n - 3 * m
    if kind in ('gen_weighted_naive', 'add_weighted_naive', 'add_sum_n_bits_easy'):
        return 5 * n - 2 * m
    return 4.5 * n - 2 * m


def check_sum(case):
    core = cirbo_core()
    from cirbo.synthesis.generation import arithmetics as ar

    kind = case['kind']
    basis_name = case['basis'][0]
    basis = arith.basis_arg(case['basis'])
    be = case['big_endian']
    cls = {kind, 'basis:' + basis_name + ('/str' if case['basis'][1] != 'enum' else '/enum'), 'be' if be else 'le'}
    if max(case.get('weights') or [0]) > 256:
        cls.add('weights>256')
    again = case['uuid_seed'] % 3 == 0  # generators: ask twice, the first result changed by its owner in between
    with UuidStream(case['uuid_seed']):
        if kind.startswith('gen_'):
            n = case['n']
            if kind == 'gen_sum_n_bits':
                c = arith.fresh(lambda: ar.generate_sum_n_bits(n, basis=basis, big_endian=be), again)
                weights = [0] * n
            elif kind == 'gen_weighted_eff':
                weights = [int(str(w)) for w in case['weights']]  # every weight an object of its own
                c = arith.fresh(lambda: ar.generate_sum_weighted_bits_efficient(weights, basis=basis), again)
            else:
                weights = [int(str(w)) for w in case['weights']]  # every weight an object of its own
                c = arith.fresh(lambda: ar.generate_sum_weighted_bits_naive(weights, basis=basis), again)
            res = refsem.from_circuit(c)
            if len(res['inputs']) != n:
                raise Violation('input_count', f'{kind}: {len(res["inputs"])} inputs for n={n}')
            pats, mask, full = arith.rows_for(n, case['row_seed'])
            try:
                t = refsem.tables(res, pats, mask)
            except (refsem.ArityError, ValueError, KeyError) as e:
                raise Violation('result_malformed', str(e))
            lhs = arith.planes([(w, t[i]) for w, i in zip(weights, res['inputs'])])
            outs = res['outputs']
            if kind == 'gen_sum_n_bits':
                seq = outs[::-1] if be else outs
                rhs = arith.planes([(k, t[o]) for k, o in enumerate(seq)])
                if len(outs) != n.bit_length():
                    raise Violation('output_count', f'sum of {n} bits returned on {len(outs)} outputs')
            else:
                # levels are not visible through generate_*: the sum must be representable by giving the outputs
                # pairwise distinct levels in increasing order of the non-zero planes of the left-hand side
                rhs = None
            if rhs is not None and lhs != rhs:
                row, k = arith.first_diff_row(lhs, rhs)
                raise Violation('wrong_sum', f'{kind} n={n} basis={case["basis"]} big_endian={be}: bit {k} wrong on sampled row {row}')
            fresh = [g[0] for g in res['gates'] if g[1] != 'INPUT']
            arith.check_basis(res, fresh, basis_name)
            m = len(outs)
            if len(fresh) > _bound(kind, basis_name, n, m) and n >= 2:
                raise Violation('gate_count', f'{kind} n={n} m={m} basis={basis_name}: {len(fresh)} gates > documented bound {_bound(kind, basis_name, n, m)}')
            if rhs is None:
                # use the add_* form on fresh inputs to see the levels (same algorithm), checked below
                pass
            cls.add('n>=3' if n >= 3 else 'n<3')
            pr = wellformed.basic_problems(c)
            if pr:
                raise Violation('wellformed', '; '.join(pr[:3]))
            if kind != 'gen_sum_n_bits':
                # weighted generate_*: the outputs carry pairwise distinct levels, so (no carries between them) the
                # non-zero output vectors must be exactly the non-zero bit planes of the integer sum
                import collections as _c

                want = _c.Counter(v for v in lhs.values())
                have = _c.Counter(t[o] for o in outs if t[o])
                if want != have:
                    raise Violation('wrong_sum', f'{kind} weights={weights} basis={case["basis"]}: the outputs are not the bit planes of sum(in*2^weight) at pairwise distinct levels')
            carry = any(k > max(weights) for k in lhs)
            return {'nt': n >= 3 and carry, 'cls': cls, 'key': [kind, case.get('n'), case.get('weights'), case['basis'], be],
                    'sample': {'kind': kind, 'n': n, 'weights': case.get('weights'), 'basis': case['basis'], 'big_endian': be}}

        # ---- add_* forms on a host
        host = case['host']
        c = build.build(host, case.get('host_route'))
        before = wellformed.snapshot(c)
        nin = len(host['inputs'])
        pats, mask, full = arith.rows_for(nin, case['row_seed'])
        t0 = refsem.tables(host, pats, mask)
        typ = {g[0]: g[1] for g in host['gates']}
        if kind in ('add_two_numbers', 'add_two_numbers_shift'):
            a = arith.resolve_operands(host, case['a'])
            b = arith.resolve_operands(host, case['b'])
            hs = case.get('hand', 'list')
            fn2 = ar.add_sum_two_numbers if kind == 'add_two_numbers' else ar.add_sum_two_numbers_with_shift
            arg_a, arg_b = arith.hand(a, hs, fn2), arith.hand(b, hs, fn2)
            cls.add('hand:' + hs)
            alias = case.get('alias')
            if alias == 'same_object':
                b = list(a)
                arg_a = list(a)
                arg_b = arg_a
                cls.add('alias:same_object')
            elif alias in ('inputs', 'outputs'):
                live = c.inputs if alias == 'inputs' else c.outputs
                if 1 <= len(live) <= 20:
                    a, arg_a = list(live), live
                    cls.add('alias:live_list')
            if kind == 'add_two_numbers':
                ret = ar.add_sum_two_numbers(c, arg_a, arg_b, big_endian=be)
                shift = 0
            else:
                shift = case['shift']
                ret = ar.add_sum_two_numbers_with_shift(c, shift, arg_a, arg_b, big_endian=be)
            res, t, fresh = arith.host_discipline(host, before, c, t0, pats, mask)
            for lab in ret:
                if lab not in t:
                    raise Violation('returned_label_absent', f'{kind} shift={shift}: returned label {lab!r} is not a gate')
            la, lb = (a[::-1], b[::-1]) if be else (a, b)
            lhs = arith.planes([(i, t[x]) for i, x in enumerate(la)] + [(i + shift, t[x]) for i, x in enumerate(lb)])
            seq = ret[::-1] if be else ret
            rhs = arith.planes([(k, t[o]) for k, o in enumerate(seq)])
            if lhs != rhs:
                row, k = arith.first_diff_row(lhs, rhs)
                raise Violation('wrong_sum', f'{kind} |a|={len(a)} |b|={len(b)} shift={shift} big_endian={be}: bit {k} wrong on row {row}')
            arith.check_basis(res, fresh, 'XAIG')
            cls.add(f'shift_vs_len:{"gt" if shift > len(a) else "eq" if shift == len(a) else "lt"}' if kind.endswith('shift') else 'noshift')
            internal = any(typ[x] != 'INPUT' for x in a + b)
            if internal:
                cls.add('internal_operands')
            return {'nt': len(a) + len(b) >= 3, 'cls': cls,
                    'sample': {'kind': kind, 'host': build.bench_text(host), 'a': a, 'b': b, 'shift': shift, 'big_endian': be}}

        ops = arith.resolve_operands(host, case['ops'])
        arg_ops = None
        if case.get('alias') in ('inputs', 'outputs'):
            live = c.inputs if case['alias'] == 'inputs' else c.outputs
            if 1 <= len(live) <= 40:
                ops, arg_ops = list(live), live
                cls.add('alias:live_list')
                if 'weights' in case:
                    case = dict(case, weights=(case['weights'] * (len(ops) // max(1, len(case['weights'])) + 1))[:len(ops)])
        n = len(ops)

        def given(fn=None):
            return arg_ops if arg_ops is not None else arith.hand(ops, case.get('hand', 'list'), fn)

        if kind == 'add_sum_n_bits':
            ret = ar.add_sum_n_bits(c, given(ar.add_sum_n_bits), basis=basis, big_endian=be)
            pairs = list(enumerate(ret[::-1] if be else ret))
            weights = [0] * n
            ops_eff = ops
        elif kind == 'add_sum_n_bits_easy':
            ret = ar.add_sum_n_bits_easy(c, given(ar.add_sum_n_bits_easy), big_endian=be)
            pairs = list(enumerate(ret[::-1] if be else ret))
            weights = [0] * n
            basis_name = 'XAIG'
        elif kind in ('add_weighted_eff', 'add_weighted_naive'):
            weights = [int(str(w)) for w in case['weights']]  # every weight an object of its own
            fn = ar.add_sum_n_weighted_bits if kind == 'add_weighted_eff' else ar.add_sum_n_weighted_bits_naive
            ret = fn(c, [(w, x) for w, x in zip(weights, ops)], basis=basis)
            pairs = [(lv, lab) for lv, lab in ret]
            if len({lv for lv, _ in pairs}) != len(pairs):
                raise Violation('levels_not_distinct', f'{kind}: levels {[lv for lv, _ in pairs]}')
        else:  # add_pow2_m1
            ret = ar.add_sum_pow2_m1(c, given(ar.add_sum_pow2_m1), big_endian=be, basis=basis)
            pairs = [(k, lab) for k, group in enumerate(ret) for lab in group]
            weights = [0] * n
        res, t, fresh = arith.host_discipline(host, before, c, t0, pats, mask)
        for _, lab in pairs:
            if lab not in t:
                raise Violation('returned_label_absent', f'{kind}: returned label {lab!r} is not a gate')
        lhs = arith.planes([(w, t[x]) for w, x in zip(weights, ops)])
        rhs = arith.planes([(lv, t[lab]) for lv, lab in pairs])
        if lhs != rhs:
            row, k = arith.first_diff_row(lhs, rhs)
            raise Violation('wrong_sum', f'{kind} operands={ops} weights={weights} basis={case["basis"]} big_endian={be}: bit {k} wrong on row {row}')
        arith.check_basis(res, fresh, basis_name)
        m = len(pairs)
        if kind != 'add_pow2_m1' and n >= 2 and len(fresh) > _bound(kind, basis_name, n, m):
            raise Violation('gate_count', f'{kind} n={n} m={m} basis={basis_name}: {len(fresh)} fresh gates > bound {_bound(kind, basis_name, n, m)}')
        if any(typ[x] != 'INPUT' for x in ops):
            cls.add('internal_operands')
        if len(set(ops)) < len(ops):
            cls.add('repeated_operands')
        cls.add('n>=3' if n >= 3 else 'n<3')
        carry = any(k > max(weights) for k in lhs)
        return {'nt': n >= 3 and carry, 'cls': cls,
                'sample': {'kind': kind, 'host': build.bench_text(host), 'operands': ops, 'weights': weights,
                           'basis': case['basis'], 'big_endian': be}}


# ---------------------------------------------------------------------------
# finite sweep over the operand count of the generators (sums and documented size, every n up to 40 and some beyond)


def width_configs(tier):
    ns = list(range(1, 41)) + [48, 63, 64, 65] + ([] if tier == 'quick' else [96, 100, 127, 128, 129, 200, 257])
    cfg = []
    for n in ns:
        for k, kind in enumerate(('gen_sum_n_bits', 'gen_weighted_eff', 'gen_weighted_naive')):
            for b, basis in enumerate((('XAIG', 'enum'), ('AIG', 'enum'))):
                case = {'kind': kind, 'n': n, 'basis': list(basis), 'big_endian': (n + k + b) % 2 == 1,
                        'uuid_seed': 3 * n + k + 1, 'row_seed': n}
                if 'weighted' in kind:
                    case['weights'] = [0] * n if (n + b) % 2 else [(i * 7 + n) % 3 for i in range(n)]
                cfg.append(case)
    # the add_* forms on a small host, operands handed over as a one-shot iterator / a tuple / a list, every count up to 12
    for n in range(1, 13):
        host = {'inputs': [f'x{i}' for i in range(n)], 'outputs': [f'h{n // 2}'] if n >= 2 else [], 'style': 'plain',
                'gates': [[f'x{i}', 'INPUT', []] for i in range(n)] + [[f'h{i}', 'NOT' if i % 2 else 'IFF', [f'x{i}']] for i in range(n)]}
        for k, kind in enumerate(('add_sum_n_bits', 'add_sum_n_bits_easy', 'add_weighted_eff', 'add_weighted_naive', 'add_pow2_m1')):
            if kind == 'add_pow2_m1' and n not in (1, 3, 7):
                continue
            for h, hand in enumerate(('iter', 'tuple', 'list')):
                case = {'kind': kind, 'basis': ['XAIG' if (n + k + h) % 2 else 'AIG', 'enum'], 'big_endian': (n + h) % 2 == 0,
                        'uuid_seed': 5 * n + k + 1, 'row_seed': n, 'host': host, 'host_route': None, 'alias': None, 'hand': hand,
                        'ops': {'idx': [n + (i * 5) % n if i % 2 else i for i in range(n)], 'repeat': False}}
                if 'weighted' in kind:
                    case['weights'] = [(i * 3 + n) % 4 for i in range(n)]
                cfg.append(case)
    return cfg


def width_sweep(tier, shard, nshards, seed):
    done = nt = 0
    sample = None
    for idx, case in enumerate(width_configs(tier)):
        if idx % nshards != shard:
            continue
        case = dict(case, row_seed=case['row_seed'] + seed)
        try:
            r = check_sum(case)
        except Violation as v:
            v.case = case
            raise
        except BaseException as e:  # noqa
            e.case = case
            raise
        done += 1
        nt += 1 if r['nt'] else 0
        sample = r['sample']
    return {'evaluations': done, 'distinct_nontrivial': nt, 'exhaustive': False, 'samples': [sample] if sample else []}


SPEC = {
    'id': 'C07',
    'rule': ('Hypothesis cases over 10 entry points (generate_sum_n_bits, generate_sum_weighted_bits_efficient/naive, '
             'add_sum_n_bits, add_sum_n_bits_easy, add_sum_n_weighted_bits(_naive), add_sum_two_numbers, '
             'add_sum_two_numbers_with_shift with shift 0..|a|+3 (boundary shifts |a|-1..|a|+2 weighted up), add_sum_pow2_m1): '
             'generate_* n 1-14 (24 thorough), add_* forms 1-40 operands taken from host gates (2^k-1 block sizes 3/7/15/31 '
             'crossed), two-number adders with lengths 1-20 incl. lopsided pairs, weight vectors with heavy ties and with gaps (0-19), basis XAIG/AIG as enum and as upper/lower/mixed-case string, both endiannesses, operands = '
             'fresh inputs or arbitrary (also repeated) gates of a generated host circuit, seeded uuid stream. Oracle: '
             'bit-sliced integer arithmetic on reference value vectors (all 2^n rows up to 14 inputs, else 2048 seeded + '
             'corner rows): sum(out*2^level) == sum(in*2^weight), distinct levels, a + b*2^shift, returned labels exist; '
             'host discipline (old gates structurally and functionally unchanged, interface unchanged), no XOR/NXOR among '
             'fresh gates under AIG, documented gate-count bounds. Non-trivial: n>=3 with a carry across levels.'
             ' Added during the build: lopsided and long operand lists, live lists / one object for both numbers / tuples / iterators, all weights shifted beyond 256 as separate int objects, generators asked twice with the first result changed in between, hosts holding the labels about to be generated, a refused call (absent label, on a host of its own) before the ordinary one, constant-zero runs inside operands, and a finite sweep of the three generators over every operand count up to 40 and some up to 65 (257) and of the add_* forms over 1-12 operands handed over as iterator / tuple / list.'),
    'assumptions': ['reference tables from vlib/refsem.py; uuid4 replaced by a seeded stream'],
    'subs': [Sub('sum', cases, arith.with_refused_prelude(arith.with_label_collisions(check_sum)), {'quick': 1600, 'thorough': 125000})],
    'sharded': {'width_sweep': width_sweep},
    'replay': {'width_sweep': check_sum},
    'required_classes': {'sum': KINDS + ['basis:AIG/str', 'basis:AIG/enum', 'basis:XAIG/str', 'internal_operands',
                                         'repeated_operands', 'shift_vs_len:gt', 'shift_vs_len:eq', 'be', 'le',
                                         'alias:live_list', 'alias:same_object', 'weights>256']},
}
