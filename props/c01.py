"""C01 - evaluation equals the denotational semantics of the gate network."""

from __future__ import annotations

import itertools

from hypothesis import strategies as st

from vlib import build, gen, refsem
from vlib.env import cirbo_core
from vlib.runner import Sub, Violation

LIMITS = {
    'quick': dict(max_inputs=6, max_gates=25),
    'thorough': dict(max_inputs=8, max_gates=45),
}


@st.composite
def cases(draw, tier):
    lim = LIMITS[tier]
    nl = draw(gen.netlists(min_inputs=0, max_inputs=lim['max_inputs'], max_gates=lim['max_gates'],
                           max_arity=5, wide_arity=13, styles=('plain', 'digits', 'mixed', 'keyword'), const_operands=(0, 0, 2, 3)))
    route = draw(gen.routes(nl))
    alt = draw(gen.routes(nl))
    n_all = len(nl['gates'])
    sel = [draw(st.integers(0, n_all - 1)) for _ in range(draw(st.integers(0, 3)))] if n_all else []
    return {'nl': nl, 'route': route, 'alt_route': alt, 'sel': sel,
            'row_seed': draw(st.integers(0, 2 ** 16)),
            # the caller keeps ONE assignment dictionary and only rewrites the input values between calls
            'keep_dict': draw(st.booleans())}


def _isbool(v):
    return v is True or v is False


def _bit(v: int, j: int) -> bool:
    return bool((v >> j) & 1)


def check_eval(case):
    core = cirbo_core()
    U = core.Undefined
    nl = case['nl']
    c = build.build(nl, case['route'])
    # the construction route must give the netlist we meant (sanity of the harness / parser)
    got = refsem.from_circuit(c)
    if got['inputs'] != nl['inputs'] or got['outputs'] != nl['outputs'] or \
            sorted(map(repr, got['gates'])) != sorted(map(repr, nl['gates'])):
        raise Violation('build_route_mismatch', f'route {case["route"]["kind"]} built {got} from {nl}')
    t = refsem.tables(nl)
    n = len(nl['inputs'])
    W = 1 << n
    labs = [g[0] for g in nl['gates']]
    typ = {g[0]: g[1] for g in nl['gates']}
    outs = nl['outputs']
    reach = refsem.reachable(nl)
    sel = [labs[i] for i in case['sel']]
    reach_sel = refsem.reachable(nl, sel)

    # whole-table entry points (cover evaluate and evaluate_full_circuit on all 2^n rows)
    tt = c.get_truth_table()
    exp_tt = refsem.tt_rows(nl)
    if tt != exp_tt:
        raise Violation('get_truth_table', f'got {tt} expected {exp_tt}')
    if any(not _isbool(v) for row in tt for v in row):
        raise Violation('get_truth_table', 'non-bool entry')
    gtt = c.get_gates_truth_table()
    if set(gtt) != set(labs):
        raise Violation('get_gates_truth_table', f'keys {sorted(gtt)} != gates {sorted(labs)}')
    for lab in labs:
        exp = refsem.int_to_col(t[lab], n)
        if list(gtt[lab]) != exp:
            raise Violation('get_gates_truth_table', f'gate {lab} ({typ[lab]}): got {list(gtt[lab])} expected {exp}')

    if n <= 6:
        rows = range(W)
    else:
        import random

        rnd = random.Random(case['row_seed'])
        rows = sorted({0, W - 1} | {rnd.randrange(W) for _ in range(40)})
    kept: dict = {}
    for j in rows:
        x = [bool((j >> (n - 1 - i)) & 1) for i in range(n)]
        assign = dict(zip(nl['inputs'], x))
        if case.get('keep_dict'):
            kept.update(assign)
            arg = lambda: kept  # noqa: E731
        else:
            arg = lambda: dict(assign)  # noqa: E731
        exp_out = [_bit(t[o], j) for o in outs]
        r = c.evaluate(list(x))
        if r != exp_out or any(not _isbool(v) for v in r):
            raise Violation('evaluate', f'row {x}: got {r} expected {exp_out}')
        for k in range(len(outs)):
            v = c.evaluate_at(list(x), k)
            if v is not exp_out[k]:
                raise Violation('evaluate_at', f'row {x} output {k}: got {v!r} expected {exp_out[k]}')
        d = c.evaluate_circuit(arg())
        if set(d) != set(labs):
            raise Violation('evaluate_circuit', f'keys {sorted(d)} != gates')
        for lab in labs:
            e = _bit(t[lab], j)
            if lab in reach or typ[lab] == 'INPUT':
                if d[lab] is not e:
                    raise Violation('evaluate_circuit', f'row {x} gate {lab} ({typ[lab]}): got {d[lab]!r} expected {e}')
            elif not (d[lab] is e or d[lab] == U):
                raise Violation('evaluate_circuit', f'row {x} unreachable gate {lab}: got {d[lab]!r}, expected {e} or Undefined')
        if sel:
            d2 = c.evaluate_circuit(arg(), outputs=list(sel))
            for lab in labs:
                e = _bit(t[lab], j)
                if lab in reach_sel or typ[lab] == 'INPUT':
                    if d2[lab] is not e:
                        raise Violation('evaluate_circuit_sel', f'row {x} outputs={sel} gate {lab}: got {d2[lab]!r} expected {e}')
                elif not (d2[lab] is e or d2[lab] == U):
                    raise Violation('evaluate_circuit_sel', f'row {x} gate {lab}: got {d2[lab]!r}')
        d3 = c.evaluate_circuit_outputs(arg())
        if d3 != {o: _bit(t[o], j) for o in outs}:
            raise Violation('evaluate_circuit_outputs', f'row {x}: got {d3}')
        d4 = c.evaluate_full_circuit(arg())
        if set(d4) != set(labs):
            raise Violation('evaluate_full_circuit', f'keys {sorted(d4)} != gates {sorted(labs)}')
        for lab in labs:
            if d4[lab] is not _bit(t[lab], j):
                raise Violation('evaluate_full_circuit', f'row {x} gate {lab} ({typ[lab]}): got {d4[lab]!r}')

    # metamorphic: other storage order, bijective relabelling, duplicated output list
    c2 = build.build(nl, case['alt_route'])
    if c2.get_truth_table() != exp_tt:
        raise Violation('storage_order', f'route {case["alt_route"]} changes the truth table')
    ren = {lab: f'r{idx}_{lab[::-1]}' for idx, lab in enumerate(labs)}
    nl3 = {'inputs': [ren[i] for i in nl['inputs']],
           'gates': [[ren[l], ty, [ren[o] for o in ops]] for l, ty, ops in nl['gates']],
           'outputs': [ren[o] for o in outs]}
    c3 = build.build(nl3, {'kind': 'add_gate'})
    if c3.get_truth_table() != exp_tt:
        raise Violation('relabel', 'bijective relabelling changes the truth table')
    if outs:
        c.set_outputs(list(outs) + list(outs))
        if c.get_truth_table() != exp_tt + exp_tt:
            raise Violation('dup_outputs', 'duplicating the output list changes values')

    cls = gen.classify(nl)
    cls.add('route:' + case['route']['kind'])
    if case.get('keep_dict'):
        cls.add('kept_assignment_dict')
    return {'nt': gen.nontrivial_basic(nl), 'cls': cls, 'key': [nl['inputs'], nl['gates'], nl['outputs']],
            'sample': {'bench': build.bench_text(nl), 'route': case['route']}}


# ---------------------------------------------------------------------------
# finite part: every module that interprets a gate type denotes the same function


def _ref_op(name: str, vals: list[bool]) -> bool:
    ints = [1 if v else 0 for v in vals]
    return bool(refsem.apply_gate(name, ints, 1) & 1)


def gate_tables(tier):
    core = cirbo_core()
    gate = core.gate
    n_checked = 0
    samples = []

    def fail(bucket, msg):
        raise Violation('gate_tables:' + bucket, msg)

    # 1. GateType.operator on Booleans
    for name in refsem.ALL_TYPES:
        gt = getattr(gate, name)
        if name in refsem.CONST:
            arities = [0]
        elif name in refsem.UNARY:
            arities = [1]
        elif name in refsem.FIXED_BINARY:
            arities = [2]
        else:
            arities = list(range(2, 14))
        for k in arities:
            for vals in itertools.product((False, True), repeat=k):
                got = gt.operator(*vals)
                exp = _ref_op(name, list(vals))
                n_checked += 1
                if got is not exp:
                    fail('operator', f'{name}{vals} = {got!r}, reference {exp}')
    samples.append('GateType.operator: all 19 types, n-ary at arity 2..13')
    # 1b. what a gate type says about itself: 'the order of the operands does not matter' has to be true of its function
    for name in refsem.ALL_TYPES:
        gt = getattr(gate, name)
        flag = getattr(gt, 'is_symmetric', None)
        if flag is None or name in refsem.CONST or name in refsem.UNARY:
            continue
        really = all(_ref_op(name, [a, b]) is _ref_op(name, [b, a]) for a in (False, True) for b in (False, True))
        n_checked += 1
        if bool(flag) and not really:
            fail('is_symmetric', f'{name} is flagged symmetric but {name}(a, b) != {name}(b, a) for some a, b')
    samples.append('GateType.is_symmetric: no order-sensitive type is flagged symmetric')

    skipped = []
    # 2./3. synthesis truth-table codes
    from cirbo.synthesis import circuit_search as cs

    for op in cs.Operation:
        name = op.name.rstrip('_').upper()
        exp = {'ALWAYS_FALSE': '0000', 'ALWAYS_TRUE': '1111'}.get(name) or refsem.BIN_TT[name]
        n_checked += 1
        if op.value != exp:
            fail('Operation', f'Operation.{op.name} = {op.value}, reference {exp}')
    tt2gt = getattr(cs, '_tt_to_gate_type', None)
    if tt2gt is None:
        skipped.append('circuit_search._tt_to_gate_type (private table not found)')
        tt2gt = {}
    elif len(tt2gt) != 16:
        fail('tt_to_gate_type', 'table does not have 16 entries')
    for bits, gt in tt2gt.items():
        s = ''.join(str(int(b)) for b in bits)
        exp = {'ALWAYS_FALSE': '0000', 'ALWAYS_TRUE': '1111'}.get(gt.name) or refsem.BIN_TT[gt.name]
        n_checked += 1
        if s != exp:
            fail('tt_to_gate_type', f'{s} -> {gt.name}, reference table of {gt.name} is {exp}')
        for a, b in itertools.product((0, 1), repeat=2):
            got = gt.operator(bool(a), bool(b))
            if got is not (s[2 * a + b] == '1'):
                fail('tt_to_gate_type', f'{s} -> {gt.name} but {gt.name}({a},{b}) = {got}')
    samples.append('circuit_search.Operation / _tt_to_gate_type: 16 codes')
    # 3b. the gate type handed to fix_gate denotes the same function: a one-gate search for T(x0, x1) with the gate fixed to
    #     T over (x0, x1) succeeds and returns T; fixed to the operand-swapped type it has no solution unless T is symmetric
    from cirbo.core.truth_table import TruthTableModel
    from cirbo.synthesis import exception as sx
    import cirbo.core.circuit.gate as cg

    def one_gate(table, fixed):
        finder = cs.CircuitFinderSat(TruthTableModel([[c == '1' for c in table]]), 1, basis=cs.Basis.FULL)
        finder.fix_gate(2, first_predecessor=0, second_predecessor=1, gate_type=getattr(cg, fixed))
        try:
            return finder.find_circuit()
        except sx.NoSolutionError:
            return None

    for name, tt in sorted(refsem.BIN_TT.items()):
        n_checked += 1
        circ = one_gate(tt, name)
        if circ is None:
            fail('fix_gate_type', f'no one-gate circuit for {name}(x0, x1) with the gate fixed to {name} over (x0, x1)')
            continue
        g = [circ.get_gate(l) for l in circ.gates if circ.get_gate(l).gate_type.name != 'INPUT']
        if len(g) != 1 or refsem.BIN_TT.get(g[0].gate_type.name) != tt or [str(o) for o in g[0].operands] != [str(i) for i in circ.inputs]:
            fail('fix_gate_type', f'gate fixed to {name} over (x0, x1) came back as {[(x.gate_type.name, x.operands) for x in g]}')
        swapped = ''.join(tt[2 * b + a] for a in (0, 1) for b in (0, 1))
        if swapped != tt:
            other = next(k for k, v in refsem.BIN_TT.items() if v == swapped)
            if one_gate(tt, other) is not None:
                fail('fix_gate_type', f'{name}(x0, x1) realised by a gate fixed to {other} over (x0, x1)')
    samples.append('fix_gate(gate_type=T): 14 two-operand types, one-gate search')

    # 4. arithmetic gate codes
    from cirbo.synthesis.generation.arithmetics import _utils as au

    b2t = getattr(au, 'binary_tt_to_type', None)
    if b2t is None:
        skipped.append('arithmetics._utils.binary_tt_to_type (table not found)')
        b2t = {}
    elif len(b2t) != 16:
        fail('binary_tt_to_type', 'table does not have 16 entries')
    for s, gt in b2t.items():
        exp = {'ALWAYS_FALSE': '0000', 'ALWAYS_TRUE': '1111'}.get(gt.name) or refsem.BIN_TT[gt.name]
        n_checked += 1
        if s != exp:
            fail('binary_tt_to_type', f'{s} -> {gt.name}, reference {exp}')
    for s in sorted(refsem.BIN_TT.values()) + ['0000', '1111']:
        c = core.Circuit.bare_circuit(2)
        lab = au.add_gate_from_tt(c, '0', '1', s)
        c.set_outputs([lab])
        got = ''.join('1' if v else '0' for v in c.get_truth_table()[0])
        n_checked += 1
        if got != s:
            fail('add_gate_from_tt', f'code {s} evaluates to {got}')
    samples.append('arithmetics._utils.binary_tt_to_type: 16 codes')

    # 5. subcircuit pattern simulation
    from cirbo.minimization import subcircuit as sc

    for k in (2, 3, 4, 5, 6, 7, 8, 9) + (() if tier == 'quick' else (10, 11, 12)):
        if not hasattr(sc, '_generate_inputs_tt') or not hasattr(sc, '_PatternOperations'):
            skipped.append('subcircuit._PatternOperations / _generate_inputs_tt (private helpers not found)')
            break
        pats = sc._generate_inputs_tt(k)
        po = sc._PatternOperations(k)
        rows = 1 << k
        for name in ('NOT', 'AND', 'NAND', 'OR', 'NOR', 'XOR', 'NXOR', 'GEQ', 'LT', 'LEQ', 'GT'):
            ar = 1 if name == 'NOT' else 2
            # all operand patterns built from inputs and their complements and constants
            pool = list(pats) + [po.max_pattern - p for p in pats] + [0, po.max_pattern]
            if k == 2:
                pool = list(range(po.max_pattern + 1))
            for ops in itertools.product(pool, repeat=ar):
                got = po.eval_pattern(list(ops), name)
                exp = refsem.apply_gate(name, list(ops), po.max_pattern)
                n_checked += 1
                if got != exp:
                    fail('eval_pattern', f'{name}{ops} over {rows} rows = {got}, reference {exp}')
        # input patterns: row i gives input j the value bit j of i
        for j, p in enumerate(pats):
            for i in range(rows):
                if ((p >> i) & 1) != ((i >> j) & 1):
                    fail('generate_inputs_tt', f'size {k} input {j} row {i}')
    samples.append('_PatternOperations.eval_pattern: 11 names, all 2-input pattern tuples; leaf patterns and their complements for 3-9 (12) leaves')

    # 6. Tseytin clause templates, through the public transformation
    from cirbo.sat.cnf import tseytin_transformation

    for name in refsem.ALL_TYPES:
        if name in refsem.CONST:
            arities = [0]
        elif name in refsem.UNARY:
            arities = [1]
        elif name in refsem.FIXED_BINARY:
            arities = [2]
        else:
            arities = [2, 3, 4]
        for k in arities:
            c = core.Circuit.bare_circuit(max(k, 1))
            ops = tuple(str(i) for i in range(k))
            c.emplace_gate('g', getattr(gate, name), ops)
            c.set_outputs(['g'])
            nin = max(k, 1)
            clauses = [list(cl) for cl in tseytin_transformation(c).get_raw()]
            top = nin + 1
            if [top] not in clauses:
                fail('tseytin', f'{name}/{k}: unit clause for the output (variable {top}) missing: {clauses}')
            clauses.remove([top])
            for vals in itertools.product((False, True), repeat=nin + 1):
                ok = all(any((vals[abs(l) - 1] if l > 0 else not vals[abs(l) - 1]) for l in cl) for cl in clauses)
                exp = vals[nin] is _ref_op(name, list(vals[:k]))
                n_checked += 1
                if ok != exp:
                    fail('tseytin', f'{name} arity {k}: template {clauses} on assignment {vals} is '
                                    f'{"satisfied" if ok else "falsified"}, reference says top {"=" if exp else "!="} op')
    samples.append('tseytin templates: 19 types, n-ary at arity 2..4, all assignments')

    # 7. bench conversion of every convertible type
    for name in refsem.ALL_TYPES:
        if name in refsem.CONST:
            ops = ()
        elif name in refsem.UNARY:
            ops = ('0',)
        else:
            ops = ('0', '1')
        for oplist in ({ops, tuple(reversed(ops)), tuple('0' for _ in ops)}):
            c = core.Circuit.bare_circuit(2)
            c.emplace_gate('g', getattr(gate, name), tuple(oplist))
            c.set_outputs(['g'])
            before = c.get_truth_table()
            nl = refsem.from_circuit(c)
            c.into_bench()
            after = c.get_truth_table()
            n_checked += 1
            if before != refsem.tt_rows(nl) or after != before:
                fail('convert_gate', f'{name}{oplist}: table {before} -> {after}')
    samples.append('converters.convert_gate: every type on (0,1), (1,0), (0,0)')
    return {'evaluations': n_checked, 'distinct_nontrivial': n_checked, 'exhaustive': not skipped,
            'samples': samples, 'skipped_private_parts': skipped}


def oracle_selfcheck(tier):
    """Validate refsem against the naive row-by-row evaluator (guards the oracle itself)."""
    import random

    rnd = random.Random(12345)
    nls = []
    for _ in range(150 if tier == 'quick' else 600):
        n_in = rnd.randrange(0, 5)
        labs = [f'x{i}' for i in range(n_in)]
        gates = [[l, 'INPUT', []] for l in labs]
        for k in range(rnd.randrange(0, 12)):
            avail = [g[0] for g in gates]
            tys = list(refsem.ALL_TYPES) if avail else list(refsem.CONST)
            ty = rnd.choice(tys)
            ar = 0 if ty in refsem.CONST else 1 if ty in refsem.UNARY else 2 if ty in refsem.FIXED_BINARY else rnd.choice([2, 3, 4])
            gates.append([f'g{k}', ty, [rnd.choice(avail) for _ in range(ar)]])
        nls.append({'inputs': labs, 'gates': gates, 'outputs': []})
    rows = refsem.self_check(nls)
    return {'evaluations': 0, 'distinct_nontrivial': 0, 'rows_compared': rows, 'netlists': len(nls)}


SPEC = {
    'id': 'C01',
    'rule': ('Hypothesis-generated netlists over all 19 gate types (n-ary arity 2-5, sharing, duplicated '
             'operands/outputs, dead gates, unused inputs, 4 label styles) built by one of 4 public '
             'construction routes (emplace/add_gate/bench text with permuted lines/rename-shuffle); every '
             'entry point compared with the independent bit-parallel reference on all 2^n rows (n<=6; '
             'whole-table entry points on all rows and 42 sampled rows for the per-row ones when n>6). '
             'Non-trivial: >=1 non-input gate reachable from an output and >=2 gate types; distinct by '
             'hash of (inputs, gates, outputs). Finite part: every gate-interpreting module enumerated '
             'completely.'
             ' Added during the build: n-ary gates with up to 13 operands, zero-input circuits, the kept assignment dict, fix_gate(gate_type=T) interpreted by a one-gate search per two-operand type, and the symmetry flag of every gate type held against its operator.'),
    'assumptions': ['refsem is the intended denotation (validated each run against a naive evaluator)',
                    'pysat / mockturtle_wrapper are replaced by test doubles only to make the modules importable'],
    'subs': [Sub('eval', cases, check_eval, {'quick': 2400, 'thorough': 200000})],
    'exhaustive': {'oracle_selfcheck': oracle_selfcheck, 'gate_tables': gate_tables},
    'required_classes': {'eval': ['nary>=3', 'dup_operand', 'constant', 'LR_gate', 'output_is_input',
                                  'dup_output', 'dead_gate', 'unused_input', 'zero_inputs',
                                  'route:bench', 'route:rename']},
}
