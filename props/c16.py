"""C16 - the database codec never silently changes a circuit."""

from __future__ import annotations

import collections
import hashlib
import io

from hypothesis import strategies as st

from vlib import build, gen, refsem
from vlib.env import cirbo_core
from vlib.runner import Sub, Violation

FORMAT_TYPES = ['NOT', 'AND', 'OR', 'NOR', 'NAND', 'XOR', 'NXOR', 'IFF', 'GEQ', 'GT', 'LEQ', 'LT',
                'ALWAYS_TRUE', 'ALWAYS_FALSE']
OUT_OF_FORMAT = ['LIFF', 'RIFF', 'LNOT', 'RNOT']


def canon(nl):
    """label -> structural digest (inputs by position), independent of labels and storage order."""
    g = {lab: (typ, ops) for lab, typ, ops in nl['gates']}
    pos = {lab: i for i, lab in enumerate(nl['inputs'])}
    memo: dict[str, str] = {}
    for lab in refsem.own_toposort(nl):
        typ, ops = g[lab]
        if typ == 'INPUT':
            memo[lab] = f'in{pos[lab]}'
        else:
            memo[lab] = hashlib.sha1((typ + '(' + ','.join(memo[o] for o in ops) + ')').encode()).hexdigest()[:16]
    return memo


def isomorphic_or_raise(nl, dec_nl, what):
    if len(dec_nl['inputs']) != len(nl['inputs']):
        raise Violation(what + ':inputs', f'{len(nl["inputs"])} inputs became {len(dec_nl["inputs"])}')
    if len(dec_nl['outputs']) != len(nl['outputs']):
        raise Violation(what + ':outputs', f'{len(nl["outputs"])} outputs became {len(dec_nl["outputs"])}')
    if len(dec_nl['gates']) != len(nl['gates']):
        raise Violation(what + ':gates', f'{len(nl["gates"])} gates became {len(dec_nl["gates"])}')
    try:
        c0, c1 = canon(nl), canon(dec_nl)
        t0, t1 = refsem.out_tables(nl), refsem.out_tables(dec_nl)
    except (refsem.ArityError, ValueError, KeyError) as e:
        raise Violation(what + ':malformed', f'decoded circuit is ill-formed: {e}')
    if collections.Counter(c0.values()) != collections.Counter(c1.values()):
        raise Violation(what + ':structure', 'decoded circuit is not isomorphic (gate for gate) to the encoded one')
    if [c0[o] for o in nl['outputs']] != [c1[o] for o in dec_nl['outputs']]:
        raise Violation(what + ':output_map', 'outputs point at different gates after decoding')
    if t0 != t1:
        raise Violation(what + ':truth_table', 'decoded circuit has a different truth table')


@st.composite
def circuit_cases(draw, tier):
    big = tier == 'thorough'
    mode = draw(st.sampled_from(['in_format', 'in_format', 'in_format', 'out_of_format']))
    if mode == 'in_format':
        nl = draw(gen.netlists(min_inputs=0, max_inputs=8, max_gates=40 if big else 20, types=FORMAT_TYPES,
                               max_arity=2, styles=('plain', 'digits', 'mixed'), max_outputs=6,
                               const_operands=(2,)))
    else:
        nl = draw(gen.netlists(min_inputs=0, max_inputs=6, max_gates=16, types=FORMAT_TYPES + OUT_OF_FORMAT,
                               max_arity=5, styles=('plain', 'digits', 'mixed'), max_outputs=4,
                               const_operands=(0, 0, 1, 2, 3)))
    return {'nl': nl, 'route': draw(gen.routes(nl)), 'via_db': draw(st.integers(0, 3)) == 0,
            'db_label': draw(st.text(min_size=0, max_size=6))}


def _in_format(nl):
    for lab, typ, ops in nl['gates']:
        if typ == 'INPUT':
            continue
        if typ not in FORMAT_TYPES:
            return False
        ar = 1 if typ in ('NOT', 'IFF') else 2  # the format gives constants two (ignored) operands
        if len(ops) != ar:
            return False
    return True


def check_codec(case):
    core = cirbo_core()
    from cirbo.circuits_db.circuits_encoding import decode_circuit, encode_circuit
    from cirbo.circuits_db.db import CircuitsDatabase
    from cirbo.circuits_db.exceptions import CircuitsDatabaseError

    nl = case['nl']
    c = build.build(nl, case['route'])
    stored = [g.label for g in c.gates.values()]
    infmt = _in_format(nl)
    cls = gen.classify(nl)
    cls.add('in_format' if infmt else 'out_of_format')
    spos = {l: i for i, l in enumerate(stored)}
    if any(spos[o] > spos[l] for l, _, ops in nl['gates'] for o in ops):
        cls.add('storage_not_topological')
    n_gates = sum(1 for g in nl['gates'] if g[1] != 'INPUT')
    if not nl['inputs'] and n_gates and (n_gates & (n_gates - 1)) == 0:
        cls.add('zero_inputs_pow2_gates')
    try:
        data = encode_circuit(c)
    except CircuitsDatabaseError as e:
        if infmt:
            raise Violation('encode_rejects_in_format', f'{type(e).__name__}: {e}')
        cls.add('encode_rejected')
        return {'nt': n_gates >= 2, 'cls': cls}
    if not isinstance(data, (bytes, bytearray)):
        raise Violation('encode_type', f'encode_circuit returned {type(data)}')
    try:
        dec = decode_circuit(bytes(data))
    except CircuitsDatabaseError as e:
        raise Violation('decode_error_on_encoded' + ('' if infmt else '_out_of_format'),
                        f'bytes produced by encode_circuit do not decode: {type(e).__name__}: {e}')
    isomorphic_or_raise(nl, refsem.from_circuit(dec), 'roundtrip' + ('' if infmt else '_out_of_format'))
    # a decoded circuit is the caller's: what is done to it afterwards (the database negates and re-marks outputs of what it
    # decodes) must not show in a later decoding of the same bytes
    try:
        first = next(iter(dec.gates), None)
        if first is not None:
            dec.emplace_gate('__after_decode__', core.gate.NOT, (first,))
            dec.set_outputs(['__after_decode__'] + list(dec.outputs)[:1])
    except core.CirboError:
        pass
    again = decode_circuit(bytes(data))
    isomorphic_or_raise(nl, refsem.from_circuit(again), 'roundtrip_second_decoding')
    if case['via_db']:
        db = CircuitsDatabase()
        db.open()
        db.add_circuit(c, label=case['db_label'])
        buf = io.BytesIO()
        db.save(buf)
        db.close()
        db2 = CircuitsDatabase(io.BytesIO(buf.getvalue()))
        db2.open()
        got = db2.get_by_label(case['db_label'])
        other = db2.get_by_label(case['db_label'] + 'x')
        db2.close()
        if got is None or other is not None:
            raise Violation('db_lookup', f'label {case["db_label"]!r}: stored circuit not found / phantom entry found')
        isomorphic_or_raise(nl, refsem.from_circuit(got), 'db_roundtrip')
        cls.add('via_db')
        if any(ord(ch) > 127 for ch in case['db_label']):
            cls.add('via_db_non_ascii_label')
    return {'nt': n_gates >= 2, 'cls': cls, 'key': [nl['inputs'], nl['gates'], nl['outputs']],
            'sample': {'bench': build.bench_text(nl), 'encoded_hex': bytes(data).hex()}}


# ---------------------------------------------------------------------------
# bit level


@st.composite
def bit_cases(draw, tier):
    ops = []
    for _ in range(draw(st.integers(0, 24))):
        k = draw(st.sampled_from(['bit', 'byte', 'num', 'num', 'bad']))
        if k == 'bit':
            ops.append(['bit', draw(st.booleans())])
        elif k == 'byte':
            ops.append(['byte', draw(st.integers(0, 255))])
        elif k == 'num':
            w = draw(st.integers(0, 40))
            ops.append(['num', draw(st.integers(0, (1 << w) - 1)), w])
        else:
            w = draw(st.integers(0, 12))
            bad = draw(st.one_of(st.integers(1 << w, (1 << w) + 300), st.integers(-300, -1)))
            ops.append(['bad', bad, w])
    return {'ops': ops}


def check_bits(case):
    cirbo_core()
    from cirbo.circuits_db.bit_io import BitReader, BitWriter
    from cirbo.circuits_db.exceptions import BitIOError

    w = BitWriter()
    nbits = 0
    good = []
    for op in case['ops']:
        if op[0] == 'bit':
            w.write(op[1])
            nbits += 1
            good.append(op)
        elif op[0] == 'byte':
            w.write_byte(op[1])
            nbits += 8
            good.append(op)
        elif op[0] == 'num':
            w.write_number(op[1], op[2])
            nbits += op[2]
            good.append(op)
        else:
            before = bytes(w)
            try:
                w.write_number(op[1], op[2])
            except BitIOError:
                if bytes(w) != before:
                    raise Violation('bit_overflow_partial_write', f'rejected number {op[1]}/{op[2]} bits left output behind')
                continue
            raise Violation('bit_overflow_accepted', f'write_number({op[1]}, {op[2]}) did not raise BitIOError')
    data = bytes(w)
    if len(data) != (nbits + 7) // 8:
        raise Violation('bit_length', f'{nbits} bits written, {len(data)} bytes produced')
    r = BitReader(data)
    for op in good:
        if op[0] == 'bit':
            v = r.read()
            if v is not op[1]:
                raise Violation('bit_roundtrip', f'read {v!r} expected {op[1]}')
        elif op[0] == 'byte':
            v = r.read_byte()
            if v != op[1]:
                raise Violation('bit_roundtrip', f'read byte {v} expected {op[1]}')
        else:
            v = r.read_number(op[2])
            if v != op[1]:
                raise Violation('bit_roundtrip', f'read number {v} expected {op[1]} ({op[2]} bits)')
    # padding bits are zero, then the reader must refuse to read past the end
    for _ in range(len(data) * 8 - nbits):
        if r.read() is not False:
            raise Violation('bit_padding', 'padding bit is not zero')
    try:
        r.read()
    except BitIOError:
        pass
    else:
        raise Violation('bit_read_past_end', 'reading past the end did not raise BitIOError')
    wide = sum(1 for op in good if op[0] == 'num' and op[2] > 8)
    return {'nt': len(good) >= 3 and nbits % 8 != 0, 'cls': {'has_rejected'} if len(good) < len(case['ops']) else set(),
            'count': {'wide_numbers': wide}}


# ---------------------------------------------------------------------------
# dictionary level

_KEYS = st.text(alphabet=st.characters(blacklist_categories=('Cs',)), min_size=0, max_size=12)


@st.composite
def dict_cases(draw, tier):
    items = draw(st.lists(st.tuples(_KEYS, st.binary(min_size=0, max_size=20)), min_size=0, max_size=6))
    d = {}
    for k, v in items:
        d[k] = v.hex()
    big = draw(st.integers(0, 30)) == 0
    return {'items': [[k, v] for k, v in d.items()], 'big_value': big, 'ext': draw(st.binary(min_size=1, max_size=3)).hex()}


def check_dict(case):
    cirbo_core()
    from cirbo.circuits_db.binary_dict_io import read_binary_dict, write_binary_dict
    from cirbo.circuits_db.exceptions import BinaryDictIOError

    d = {k: bytes.fromhex(v) for k, v in case['items']}
    if case['big_value']:
        d['big'] = bytes(range(256)) * 255 + b'x' * 255  # 65535 bytes: the largest value the format allows
        d['k' * 21845 + 'é'] = b''  # key of 21847 UTF-8 bytes, still within 2-byte length
    buf = io.BytesIO()
    write_binary_dict(d, buf)
    data = buf.getvalue()
    try:
        back = read_binary_dict(io.BytesIO(data))
    except (BinaryDictIOError, UnicodeDecodeError) as e:
        raise Violation('dict_roundtrip', f'written dictionary does not read back: {type(e).__name__}: {e}; keys {[k[:30] for k in list(d)[:4]]!r}')
    if back != d:
        raise Violation('dict_roundtrip', f'read(write(d)) != d for keys {[k[:30] for k in list(d)[:4]]!r}')
    if list(back) != list(d):
        raise Violation('dict_order', 'key order changed')
    # truncated data is rejected
    cuts = range(len(data)) if len(data) <= 400 else list(range(0, 64)) + list(range(len(data) - 64, len(data)))
    for cut in cuts:
        try:
            read_binary_dict(io.BytesIO(data[:cut]))
        except BinaryDictIOError:
            continue
        except UnicodeDecodeError:
            continue
        raise Violation('dict_truncated_accepted', f'prefix of {cut}/{len(data)} bytes was accepted')
    try:
        read_binary_dict(io.BytesIO(data + bytes.fromhex(case['ext'])))
    except BinaryDictIOError:
        pass
    else:
        raise Violation('dict_trailing_accepted', 'trailing data was accepted')
    cls = set()
    if any(any(ord(ch) > 127 for ch in k) for k in d):
        cls.add('non_ascii_key')
    if '' in d:
        cls.add('empty_key')
    if case['big_value']:
        cls.add('max_length_value')
    return {'nt': len(d) >= 2, 'cls': cls, 'sample': {'keys': [k[:40] for k in list(d)[:6]]}}


# ---------------------------------------------------------------------------
# size sweep: the word size of the format depends on the largest identifier / count, so every power of two
# up to 1024 is crossed by the number of gates and by inputs + gates (deterministic circuits, no generator)

SWEEP_TYPES = ['AND', 'NOT', 'OR', 'XOR', 'IFF', 'NAND', 'NOR', 'NXOR', 'GT', 'LT', 'GEQ', 'LEQ']


def sized_netlist(n_in, n_gates, n_out, variant):
    ins = [f'x{i}' for i in range(n_in)]
    gates = [[x, 'INPUT', []] for x in ins]
    labs = list(ins)
    for k in range(n_gates):
        typ = SWEEP_TYPES[(k * 7 + variant) % len(SWEEP_TYPES)]
        a = labs[-1 - (k * 3 + variant) % min(len(labs), 5)]
        b = labs[(k * k + variant) % len(labs)]
        lab = f'g{k}'
        gates.append([lab, typ, [a] if typ in ('NOT', 'IFF') else [a, b]])
        labs.append(lab)
    outs = [labs[-1 - (q * 5) % len(labs)] for q in range(n_out)]
    return {'inputs': ins, 'gates': gates, 'outputs': outs}


def sweep_configs(tier):
    top = 9 if tier == 'quick' else 11
    cfg = []
    for n_in in (1, 3, 5):
        totals = set()
        for k in range(1, top + 1):
            for d in (-1, 0, 1):
                totals.add((1 << k) + d)
        for tot in sorted(totals):
            for g in {tot, tot - n_in}:
                if g < 0:
                    continue
                for n_out in ((1, 2) if tier == 'quick' else (0, 1, 2, 3)):
                    cfg.append((n_in, g, n_out, (g + n_out) % 3))
    # the number of outputs alone can set the word size (repeated outputs of a tiny circuit)
    for n_in in (1, 2):
        for g in (0, 1, 3):
            for k in range(1, top + 1):
                for d in (-1, 0, 1):
                    cfg.append((n_in, g, (1 << k) + d, k % 3))
    return sorted(set(cfg))


def size_sweep(tier, shard, nshards, seed):
    cfg = sweep_configs(tier)
    done = nt = 0
    sample = None
    for idx, (n_in, g, n_out, variant) in enumerate(cfg):
        if idx % nshards != shard:
            continue
        case = {'n_in': n_in, 'n_gates': g, 'n_out': n_out, 'variant': variant}
        try:
            replay_size(case)
        except Violation as v:
            v.case = case
            raise
        except BaseException as e:  # noqa
            e.case = case
            raise
        done += 1
        nt += g >= 2
        sample = case
    return {'evaluations': done, 'distinct_nontrivial': nt, 'exhaustive': False, 'counters': {}, 'samples': [sample] if sample else []}


def replay_size(case):
    nl = sized_netlist(case['n_in'], case['n_gates'], case['n_out'], case['variant'])
    check_codec({'nl': nl, 'route': {'kind': 'emplace'}, 'via_db': False, 'db_label': ''})


# ---------------------------------------------------------------------------
# gate types of the user's own (finite part): a type object that merely looks like a built-in one


def own_gate_types(tier):
    """A circuit holding a gate of a user-made GateType - named like a built-in type or not, computing that type's function
    or another one - is a circuit: encoding it is refused, or the bytes give back its function."""
    core = cirbo_core()
    from cirbo.circuits_db.circuits_encoding import decode_circuit, encode_circuit
    from cirbo.circuits_db.exceptions import CircuitsDatabaseError

    gate = core.gate
    # operator written here -> the reference type that computes the same function
    operators = {'GT': lambda a, b: a and not b, 'LT': lambda a, b: (not a) and b, 'AND': lambda a, b: a and b,
                 'NOR': lambda a, b: not (a or b), 'XOR': lambda a, b: a != b, 'LIFF': lambda a, b: a}
    names = ['AND', 'OR', 'XOR', 'NAND', 'NOR', 'NXOR', 'GT', 'LT', 'GEQ', 'LEQ', 'LIFF', 'RIFF', 'ALWAYS_TRUE', 'MY_OWN_TYPE', 'and']
    done = refused = 0
    for name in names:
        for ref_type, op in operators.items():
            for sym in (False, True):
                try:
                    gt = gate.GateType(name, op, sym)
                except Exception:  # noqa  - no such public constructor (any more): nothing to check
                    return {'evaluations': 0, 'distinct_nontrivial': 0, 'exhaustive': True, 'samples': ['GateType is not constructible']}
                c = core.Circuit.bare_circuit(2)
                c.emplace_gate('g', gt, ('0', '1'))
                c.emplace_gate('h', gate.NOT, ('g',))
                c.set_outputs(['h', 'g'])
                nl = {'inputs': ['0', '1'], 'gates': [['0', 'INPUT', []], ['1', 'INPUT', []], ['g', ref_type, ['0', '1']], ['h', 'NOT', ['g']]],
                      'outputs': ['h', 'g']}
                done += 1
                try:
                    data = encode_circuit(c)
                except CircuitsDatabaseError:
                    refused += 1
                    continue
                try:
                    dec = decode_circuit(bytes(data))
                except CircuitsDatabaseError as e:
                    raise Violation('own_type:decode_error_on_encoded', f'own gate type named {name!r} (function of {ref_type}): {type(e).__name__}: {e}')
                got = refsem.out_tables(refsem.from_circuit(dec))
                if got != refsem.out_tables(nl) or len(dec.inputs) != 2:
                    raise Violation('own_type:silently_different', f'own gate type named {name!r} computing {ref_type}: encoded without complaint, '
                                                                   f'decodes to output tables {got}, the circuit has {refsem.out_tables(nl)}')
    return {'evaluations': done, 'distinct_nontrivial': done, 'exhaustive': True, 'counters': {'refused': refused},
            'samples': ['15 type names x 6 operators x both symmetry flags in a two-gate circuit']}


SPEC = {
    'id': 'C16',
    'rule': ('(a) in-format circuits: the 14 encodable types with the arity the format defines (one operand for NOT/IFF, two for everything else incl. the constants), 0-8 inputs, any '
             'storage order (rename / bench routes), 0-6 outputs with repeats: encode and decode must succeed and give '
             'an isomorphic circuit (same counts, equal multiset of structural gate digests with inputs by position, '
             'outputs map to the same digests, equal reference table). (b) out-of-format circuits (n-ary gates, constants with 0/1/3 operands, '
             'LIFF/RIFF/LNOT/RNOT): codec error at encode, or an isomorphic decode - never a decode error, foreign '
             'exception or silently different circuit. (c) BitWriter/BitReader on generated bit/byte/number sequences '
             'incl. overflowing and negative numbers. Size sweep (sharded, deterministic chains): number of gates, inputs + gates and '
             'number of outputs at 2^k-1, 2^k, 2^k+1 for k up to 9 (11 thorough) - every word size of the format. (d) write/read_binary_dict on dictionaries with arbitrary Unicode '
             'keys (no lone surrogates) incl. maximum-length entries, every strict prefix and an extension. (e) in-memory '
             'CircuitsDatabase add -> save -> reopen -> get_by_label with arbitrary text labels. Non-trivial: >=2 '
             'non-input gates (circuits), >=3 writes not byte aligned (bits), >=2 entries (dict).'
             ' Added during the build: a decoded circuit is changed by its owner and the same bytes decoded again; sharded size sweep; user-made gate types that are named like built-in ones.'),
    'assumptions': ['reference tables from vlib/refsem.py'],
    'subs': [Sub('codec', circuit_cases, check_codec, {'quick': 3000, 'thorough': 250000}),
             Sub('bits', bit_cases, check_bits, {'quick': 1500, 'thorough': 100000}),
             Sub('dict', dict_cases, check_dict, {'quick': 1200, 'thorough': 75000})],
    'sharded': {'size_sweep': size_sweep},
    'exhaustive': {'own_gate_types': own_gate_types},
    'replay': {'size_sweep': replay_size},
    'required_classes': {'codec': ['in_format', 'out_of_format', 'storage_not_topological', 'constant',
                                   'zero_inputs_pow2_gates', 'nary>=3', 'LR_gate', 'via_db', 'dup_output'],
                         'dict': ['non_ascii_key', 'max_length_value'], 'bits': ['has_rejected']},
}
