#!/bin/sh
# Re-runs the detecting checks against every seeded change (each applied to a scratch copy of /repo/cirbo).
# usage: tools/run_seeds.sh [ID ...]      (default: all of seeded/*)
HERE="$(cd "$(dirname "$0")/.." && pwd)"
IDS="$@"; [ -z "$IDS" ] && IDS=$(ls "$HERE/seeded")
for ID in $IDS; do
  D="$HERE/seeded/$ID"
  [ -f "$D/patch.diff" ] || continue
  S=$(mktemp -d /tmp/cirbo_seedrun.XXXXXX)
  mkdir -p "$S/cirbo"; rsync -a --exclude '__pycache__' /repo/cirbo/ "$S/cirbo/"
  if ! (cd "$S" && git apply --unsafe-paths "$D/patch.diff" 2>/dev/null || patch -s -p1 < "$D/patch.diff"); then echo "$ID: patch does not apply"; rm -rf "$S"; continue; fi
  CHECKS=$(python3 -c "import json;print(' '.join(json.load(open('$D/meta.json'))['checks_that_catch_it']))")
  for P in $CHECKS; do
    VERIF_REPO="$S" "$HERE/check" "$P" --tier quick > "$S/out.txt" 2>&1; rc=$?
    echo "seed $ID vs check $P: exit=$rc $(grep -m1 'bucket' "$S/out.txt" | cut -c1-150)"
  done
  rm -rf "$S"
done
