#!/bin/sh
# usage: tools/eval_seed.sh <ID> [PROP ...]   -- confirm a seeded change living in /tmp/seed_<ID> and run checks against it
ID="$1"; shift
BASE=$(echo "$ID" | sed "s/[a-z]*$//")
W=/tmp/seed_$BASE
OUT=/verif/seeded/$ID
mkdir -p "$OUT"
git -C "$W" diff > "$OUT/patch.diff"
cp "$W/demo_$ID.py" "$OUT/demo_$ID.py" 2>/dev/null
PP="$W:/tmp/sa_env/shims:/tmp/sa_env/deps"
( cd "$W" && PYTHONPATH="$PP" /venv/bin/python demo_$ID.py >/tmp/demo_with.txt 2>&1 ); WITH=$?
# (no git stash here: the stash is shared between all worktrees of one repository)
git -C "$W" checkout -q -- cirbo
( cd "$W" && PYTHONPATH="$PP" /venv/bin/python demo_$ID.py >/tmp/demo_without.txt 2>&1 ); WITHOUT=$?
git -C "$W" apply "$OUT/patch.diff"
SUITE=$(cd "$W" && /venv/bin/python -m pytest -q -p no:cacheprovider --timeout=900 --continue-on-collection-errors 2>&1 | tail -1)
echo "seed $ID: demo with change exit=$WITH, without exit=$WITHOUT; suite: $SUITE"
echo "files: $(git -C "$W" diff --stat | tail -1)"
for P in "$@"; do
  VERIF_REPO="$W" /verif/check "$P" --tier quick > /tmp/seedrun_${ID}_$P.txt 2>&1; rc=$?
  echo "  check $P against seed $ID: exit=$rc  $(grep -m1 -A1 VIOLATION /tmp/seedrun_${ID}_$P.txt | tr '\n' ' ' | cut -c1-260)"
done
