# Table read by tools/make_manifest.py.  add(id, technique, level text, level note)
TRUST = ('Trusted: CPython, Hypothesis, the independent reference semantics vlib/refsem.py (validated each '
         'run against a naive evaluator). Bounded sampling: absence of violations is not established.')

add('C01', 'property-based differential testing against a reference evaluator + exhaustive gate-table enumeration',
    'Generated netlists (all gate types/arities/shapes, 4 construction routes) evaluated through every entry '
    'point on all 2^n rows and compared with an independent bit-parallel reference; all gate-interpreting '
    'modules enumerated completely against the same reference tables.',
    TRUST)



add('C05', 'property-based testing: exactness of the CNF reduction decided row by row with an own DPLL against the reference evaluator',
    'For generated circuits and output selections, CNF + every total input assignment is decided by an independent '
    'complete DPLL and compared both ways (SAT iff outputs true, unique extension, gate variables carry evaluated '
    'values, input i = variable i+1); the satisfiability query and its model are checked against the reference table.',
    TRUST + ' UNSAT answers of the z3-backed pysat stand-in are trusted only for is_circuit_satisfiable.')
add('C13', 'property-based differential testing of the miter against row-wise inequality of reference tables',
    'Generated circuit pairs (incl. single output, shared labels, outputs that are inputs / repeated); miter compared on '
    'all 2^n rows with the reference difference table by two evaluators and by the SAT query; operands snapshotted.',
    TRUST)
add('C20', 'property-based testing with a validity predicate over recorded traversal event traces',
    'Generated DAGs x start sets x DFS/BFS x directions x hook subsets: all order/coverage predicates of the statement '
    'checked on the recorded trace against own reachability; cyclic bench texts decide the cycle check both ways.',
    TRUST)
