# Table read by tools/make_manifest.py.  add(id, technique, level text, level note)
TRUST = ('Trusted: CPython, Hypothesis, the independent reference semantics vlib/refsem.py (validated each '
         'run against a naive evaluator). Bounded sampling: absence of violations is not established.')

add('C01', 'property-based differential testing against a reference evaluator + exhaustive gate-table enumeration',
    'Generated netlists (all gate types/arities/shapes, 4 construction routes) evaluated through every entry '
    'point on all 2^n rows and compared with an independent bit-parallel reference; all gate-interpreting '
    'modules enumerated completely against the same reference tables.',
    TRUST)



add('C05', 'property-based testing: exactness of the CNF reduction decided row by row with an own DPLL (z3 on bodies of 100+ gates, models re-checked) against the reference evaluator',
    'For generated circuits and output selections, CNF + every total input assignment is decided by an independent '
    'complete DPLL and compared both ways (SAT iff outputs true, unique extension, gate variables carry evaluated '
    'values, input i = variable i+1); the satisfiability query and its model are checked against the reference table.',
    TRUST + ' UNSAT answers of the z3-backed pysat stand-in are trusted only for is_circuit_satisfiable; on generated bodies of 100-320 gates z3 decides the rows (its UNSAT answers are trusted there, its models are re-checked against the clauses).')
add('C13', 'property-based differential testing of the miter against row-wise inequality of reference tables',
    'Generated circuit pairs (incl. single output, shared labels, outputs that are inputs / repeated); miter compared on '
    'all 2^n rows with the reference difference table by two evaluators and by the SAT query; operands snapshotted.',
    TRUST)
add('C20', 'property-based testing with a validity predicate over recorded traversal event traces',
    'Generated DAGs (incl. chains of 300-6000 levels) x start sets x DFS/BFS x directions x hook subsets: all order/coverage predicates of the statement '
    'checked on the recorded trace against own reachability; cyclic bench texts decide the cycle check both ways.',
    TRUST)

add('C15', 'property-based testing of soundness/monotonicity against all completions + exhaustive three-valued operator tables',
    'Generated circuits x all 3^n partial assignments x three entry points; each defined value checked constant on the '
    'cube of completions against the reference full table, all one-step refinements, totality; operator tables over '
    '{F,T,U}^k (k<=4) enumerated completely.',
    TRUST)
add('C03', 'property-based metamorphic testing: reference truth table / interface / argument snapshot before vs after each pass or pipeline',
    'Generated circuits (unary chains, duplicates, equivalents, constants, dead logic) x passes and grammar-generated '
    'pipelines; function, interface, argument immutability, size and well-formedness checked on every case.',
    TRUST)
add('C18', 'property-based testing of pass post-conditions and the algebraic law pipeline == sequencing',
    'Single passes checked against the post-condition the statement words (own reachability, duplicate signature, '
    'reference-table uniqueness, unary-chain predicates under the stated pre-conditions); every generated pipeline '
    'shape compared with manual sequencing by Circuit.__eq__.',
    TRUST)
add('C14', 'property-based metamorphic testing of into_bench with a structural invariant and helper-in-block predicate',
    'Generated circuits with all rewritten gate types, identical operands, outputs and block members; per-gate reference '
    'tables, allowed type set, users multiset / top-sort invariant and block membership of helper gates after conversion.',
    TRUST)

add('C11', 'property-based round-trip testing (print -> parse) and reference-model testing of generated textual layouts',
    'Generated circuits with identifier labels incl. keyword-prefixed ones round-trip through format/parse and save/load; '
    'generated layouts of a known netlist (declaration order, case, aliases, spacing, comments) must parse to that netlist.',
    TRUST + ' Only layout constructs the parser documents are generated.')
add('C16', 'property-based round-trip + rejection testing of the codec, bit I/O and dictionary I/O',
    'In-format circuits must round-trip to an isomorphic circuit in any storage order; out-of-format circuits must raise a '
    'codec error or round-trip; bit and dictionary writers/readers are checked as mutual inverses incl. overflow, '
    'truncation (every prefix) and trailing data; in-memory database save/reopen; finite parts: size sweep over every word size, user-made gate types named like built-in ones.',
    TRUST)

add('C12', 'finite enumeration of small functions + property-based differential testing of three representations against definitions',
    'All functions with n<=2,m<=2 and n=3,m=1 (thorough) through 4-5 representations and every protocol query/argument, '
    'compared with definitions computed from the raw table and pairwise; sampled larger functions, netlist circuits, '
    'models with don\'t-cares, integer wrappers and index utilities.',
    TRUST + ' "Monotone" is taken in the documented column-order sense.')
add('C19', 'property-based testing against reference bookkeeping / cofactor / independently synthesised equivalent replacements',
    'rename / replace_inputs / remove_gate on generated circuits with blocks checked against a reference renaming of the '
    'snapshot, the reference cofactor, and the users relation; replace_subcircuit driven with generated cut-bounded cones '
    'and DNF / Reed-Muller replacements, valid requests must succeed, faulty ones raise a CircuitError or keep the function; finite sweep of the four rewrites on chains of 120-5000 gates.',
    TRUST)
add('C10', 'property-based testing against an own reference implementation of the documented composition',
    'Base + 1-3 attached circuits through all seven composition entry points, both directions, internal / repeated / '
    'partial connectors, names and prefixes; inputs, outputs, label set, per-output truth table, rejections, attached '
    'circuit immutability, well-formedness and block extraction compared with the reference model; finite sweep of buses of 128-1025 connector pairs through every entry point.',
    TRUST + ' One attached INPUT paired with several base inputs is left out (documentation is silent).')
add('C02', 'stateful property-based testing (Hypothesis rule-based state machine) with a structural invariant after every step',
    'Histories of all public mutators (19 rules, valid and deliberately invalid arguments, label re-use) on a pool of '
    'circuits; each call on a deep copy adopted only on normal return; full well-formedness invariant incl. copy '
    'independence and evaluator agreement after every adopted step; failing histories shrink as one value and replay '
    'from the operation log without Hypothesis.',
    TRUST)

add('C07', 'property-based testing against Python integer arithmetic (bit-sliced) on reference value vectors',
    'Ten summation entry points x operand counts / weight vectors / basis spellings / endianness / host circuits; exact sum '
    'identity, distinct levels, returned labels exist, host discipline, basis and gate-count predicates; finite sweep of the three generators over every operand count up to 40 and some up to 257.',
    TRUST + ' More than 14 input bits: 2048 seeded rows + corner rows only.')
add('C08', 'finite width sweep + property-based testing against the integer product on reference value vectors',
    'All small width pairs x modes x endianness exhaustively over operand values, recursion-triggering widths on sampled + '
    'corner rows, and every add_mul*/add_square* on arbitrary host gates; product identity, result length, host discipline.',
    TRUST + ' Wide circuits (>14 input bits) are checked on sampled rows only.')
add('C09', 'property-based testing against Python integer arithmetic decoded row by row from reference tables',
    'generate_* and add_* forms of sub / sub-with-compare / div-mod / sqrt / equality / plus-one / if-then-else / pairwise '
    'gadgets on all 2^n rows, incl. unequal widths, b=0, constants that do not fit, add_outputs / result_labels options and '
    'shape-mismatch rejection; output-marking and host-discipline predicates; finite part on words of 63-513 bits (plus-one, subtraction) at the values where carries run through the whole word.',
    TRUST)

add('C17', 'finite enumeration of the shipped databases and lookup tables + property-based lookup testing against an own normalisation model',
    'All stored entries (thorough) / seeded sample (quick) decoded and compared with the table their key spells, basis and '
    'well-formedness; lookups for all small tables (thorough) and generated tables with equal / complementary outputs and '
    'unstored shapes against an own normalisation model; don\'t-care lookups against own completion enumeration.',
    TRUST + ' The list of stored labels is read from the opened database object.')
add('C06', 'property-based testing: validity predicate on every returned circuit + own brute-force enumeration on every NoSolution verdict',
    'Generated function models x budgets x bases x constraints: soundness by a validity predicate over the decoded circuit '
    'and CNF/verdict equisatisfiability; completeness by enumerating the same canonical search space independently.',
    TRUST + ' The SAT solver is a z3-backed stand-in for pysat (models re-checked, UNSAT cross-checked by the enumeration); '
    'search spaces above the bound are counted as inconclusive.')

add('C04', 'property-based differential testing with a generated environment (admissible cut families, hash seeds, injected solver time-outs)',
    'Generated supported-gate circuits x basis x parameters x policy-generated admissible cut families x per-worker '
    'PYTHONHASHSEED x forked / in-process solver x deterministic time-out injection; result compared with the argument by '
    'reference truth table, interface, non-trivial gate count and well-formedness; FailedValidationError and (on circuits '
    'without equivalent gates) every internal error are violations.',
    TRUST + ' mockturtle cut enumeration and the pysat solver are stand-ins that lie inside the domain the property '
    'quantifies over (any admissible cut family, any sound and complete solver); CaDiCaL / mockturtle specific behaviour is not exercised.')
