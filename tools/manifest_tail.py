_PENDING = ['C02', 'C03', 'C04', 'C05', 'C06', 'C07', 'C08', 'C09', 'C10', 'C11', 'C12', 'C13', 'C14',
            'C15', 'C16', 'C17', 'C18', 'C19', 'C20']
NOT_APPLICABLE = [{'property_id': p, 'reason': 'check not built yet (work in progress; the technique applies, see DESIGN.md)'}
                  for p in _PENDING if p not in CHECKS]
NOTES = ('All checks: ./check <ID> --tier quick|thorough ; exit 0 held / 1 VIOLATION / 2 harness error. '
         'Known findings and fixed defects: known_findings.json.')
