#!/usr/bin/env python3
"""Writes the prompts for one round of seeding sub-agents to /tmp/sa_prompts/<ID><suffix>.txt.

usage: tools/make_seed_prompts.py <suffix> [PROP ...]        (suffix: '', b, c, d, ...)

Each prompt contains ONLY the text of one property (title, statement, quantifier) from properties.jsonl, the path of the
agent's own scratch worktree (/tmp/seed_<PROP>) and - from round 2 on - one line per earlier change of that property
(file + what it needed to manifest, taken from seeded/*/meta.json) so that the new change uses another mechanism.
Nothing about the checks of /verif is included.
"""
import glob
import json
import os
import sys

HERE = os.path.dirname(os.path.dirname(os.path.abspath(__file__)))
suffix = sys.argv[1]
props = {}
for line in open(os.path.join(HERE, 'properties.jsonl')):
    d = json.loads(line)
    props[d['id']] = d
ids = sys.argv[2:] or sorted(props)
os.makedirs('/tmp/sa_prompts', exist_ok=True)

STYLE = {
    't': ('This time YOU choose the mechanism, with one goal: assume the property is guarded by an automated randomized test '
          'generator that draws many small and a few large random circuits / tables / operand lists / call sequences, runs '
          'every public entry point of the functionality with every option, and compares the result with an independent '
          'reference implementation. Think about which realistic defect such a generator would be LEAST likely to hit, and '
          'make that one: e.g. a co-occurrence of three or more individually common features; a dependence on the text of '
          'a label or on the order in which gates were created rather than on the structure; a rare gate type in a rare '
          'position; a state that only a specific sequence of three or more DIFFERENT public calls reaches; an interaction '
          'with object identity, hashing or equality of user-supplied values; a value that is wrong only when two independent '
          'quantities coincide. It must still be something a maintainer could plausibly write, and a user could plausibly '
          'run into. Do not add comments that point at the flaw.'),
    's': ('This time the change must only show at a SCALE or BOUNDARY that small examples do not reach, or in a DEGENERATE '
          'case: a threshold on a count, width, arity, depth, index or length (more than 8 / 16 / 32 / 64 of something, a '
          'power of two, a value that needs a second machine word or a second chunk / row / level of a recursive construction, '
          'a label or a number longer than usual, the last element of a long range), a loop bound or slice that is off by one '
          'only when two quantities happen to coincide (as many outputs as inputs, operands of equal length, a cut as large as '
          'the circuit, a gate that is both first and last), or the empty / single-element / all-equal extreme (no gates, no '
          'inputs, one output, a gate used by itself twice, all operands the same gate, a constant circuit). Small and '
          'medium-sized ordinary inputs must still be right. Do not add comments that point at the flaw.'),
    'v': ('This time make a COMPOUND change: two (at most three) small edits in DIFFERENT functions or files, each of which is '
          'harmless on its own (the library would still satisfy the property with only one of them), but which together break '
          'the property in a corner - e.g. one site stops normalising / copying / validating / sorting something "because the '
          'other site does it", and the other site stops doing it "because callers do"; a default changed at the definition and '
          'an explicit argument dropped at one call; a helper that starts returning one more / one less element and a caller '
          'that compensates in the wrong direction. In your final answer say which edit alone is harmless and why. Do not add '
          'comments that point at the flaw.'),
    'r': ('This time break a SYMMETRY: the library has many pairs of code paths that ought to mirror each other - left / '
          'right connection, first / second predecessor, inputs_to_true / inputs_to_false, big- / little-endian, inverse / '
          'forward traversal, XOR / NXOR and the other complemented gate types, LIFF / RIFF and LNOT / RNOT, AND / OR duals, '
          'GT / LT and GEQ / LEQ, the encoder / decoder of one field, string / enum spelling of an option, add_* / generate_* '
          'forms, the `_at(i)` / whole-function forms of a query, input / output handling. Change ONE member of such a pair '
          'so that it no longer mirrors its twin (as a copy-and-paste slip or a half-finished edit would), in a corner '
          'that ordinary use does not reach. Do not add comments that point at the flaw.'),
    'o': ('This time the change must involve SHARED MUTABLE STATE or the AFTERMATH OF A REFUSAL: a mutable default argument, '
          'a class attribute used as an instance attribute, a module-level list / dict / counter / singleton that instances '
          'or successive calls share, an object shared between a circuit and its copy or between an argument and the result, '
          'state that is not reset between two uses of the same object; or a call that raises (legitimately - a documented '
          'refusal) only AFTER it has already changed something, so that the object it was called on, or the next perfectly '
          'normal call, misbehaves (a flag left set, an entry left in an index, a half-inserted gate, a counter advanced, a '
          'file left open, a cache filled with a partial result). The first, ordinary use must stay correct. Do not add '
          'comments that point at the flaw.'),
    'n': ('This time the change must involve ORDER, IDENTITY or TYPE of values rather than plain logic: iteration order of a '
          'set / dict / frozenset that leaks into the result (hash-seed dependent: right under some PYTHONHASHSEED values and '
          'wrong under others), a sort that is not stable or uses an incomplete key, ties broken differently, `sorted` on mixed '
          'labels, positions taken from one ordering and used with another (storage order vs input order vs topological '
          'order vs output order), bool vs int vs the three-valued Undefined / DontCare markers, `0 == False` / `1 == True` '
          'collapsing dictionary keys or set members, str vs int labels (`"1"` vs `1`), a tuple where a list is expected or a '
          'generator consumed twice, `is` vs `==` on small ints or interned strings, integer vs float division, negative '
          'indices. It must be wrong only in a corner. Do not add comments that point at the flaw.'),
    'm': ('This time the change must be a CONTRACT DRIFT between a helper and its callers: change what an internal helper, '
          'method, property or data structure promises (the order of what it returns, whether a bound is inclusive, whether it '
          'returns a copy or the live object, a list or a set or a generator, labels or Gate objects, whether it includes inputs '
          '/ the start gate / duplicates, big- or little-endian, whether None or an empty container means "nothing", whether it '
          'raises or returns a sentinel) and adapt the callers so that everything keeps working - except ONE caller or one code '
          'path (the one that matters for this property) that still assumes the old contract and goes wrong only in a corner. '
          'Alternatively leave the helper alone and change one caller\'s assumption about it. The diff should read like a tidy '
          'API clean-up. Do not add comments that point at the flaw.'),
    'l': ('This time the change must look like a PERFORMANCE OPTIMISATION that a reviewer would welcome: a cache or memo table '
          '(which can go stale after a mutation, or be keyed too coarsely), a value computed once and reused where it should be '
          'recomputed, a copy avoided (so that two objects share state), an early exit or pruning rule that is almost always '
          'valid, a precomputed lookup table with one wrong / missing entry, a bit-parallel or integer trick that overflows '
          'or mis-handles a width, lazily computed state, a recursion turned into iteration (or a threshold between two '
          'algorithms moved). It must be wrong only in a corner: after a particular earlier call, for a structure that '
          'defeats the pruning rule, or beyond a size threshold (more than about 6 inputs, 30 gates, 8 outputs, 32-bit or '
          '64-bit wide operands, deep chains). Do not add comments that point at the flaw.'),
    'k': ('This time the change must look like a BEHAVIOUR-PRESERVING REFACTORING or clean-up that a reviewer would wave through: '
          'a loop turned into a comprehension, a list turned into a set or dict (losing order or multiplicity), `sorted` / '
          '`dict.fromkeys` / `zip` / `enumerate` / slicing introduced or removed, two similar branches merged into one, a helper '
          'extracted and reused in a second place where it is subtly not appropriate, an early return or `continue` added, a '
          'condition rewritten with De Morgan, `is` vs `==`, truthiness (`if x:`) instead of `is not None` / `!= []`, an integer '
          'division or shift rewritten, a default argument introduced. It must really be wrong only in a corner (repeated '
          'elements, empty collections, zero, equal values, order-sensitive operands, falsy-but-valid values such as 0, "" or '
          'False). Do not add comments that point at the flaw.'),
    'j': ('This time attack the NEGATIVE side of the property if it has one: something the property says must be refused, '
          'answered with "nothing" / "no solution" / False, reported by a dedicated error, left untouched, or NOT done '
          '(not modified, not marked, not added, not larger, not duplicated) - and make the library do it anyway, or refuse '
          '/ answer negatively where it must not, in a corner that ordinary use does not reach. If the property has no such '
          'side, pick the clause of the property that the earlier attempts listed above touched least. A reviewer who reads '
          'the diff alone should find it plausible.'),
    'i': ('This time the change must need a COMBINATION OF TWO OR MORE OPTIONS or argument properties to show - each of '
          'them alone (and the defaults) must keep working. Examples of axes that can be combined: endianness x unequal '
          'widths x basis spelling x add_outputs x given result labels; block name x add_prefix x connection direction x '
          'repeated connectors; output selection x repeated outputs; input removal x position in a pipeline; size limit x '
          'cut size x fan-out limit x time limit x validation; inverse x start set x hook set x topsort_unvisited; '
          'don\'t-care pattern x exclusion list x output count. Alternatively a size at which two thresholds or two '
          'recursion levels meet. A reviewer who reads the diff alone should find it plausible.'),
    'h': ('This time the change must only show on objects PRODUCED BY ANOTHER PART OF THE LIBRARY and then handed to the '
          'functionality of this property: a circuit returned by an arithmetic generator, by the bench parser, by into_bench, '
          'by a composition (connect_circuit / add_circuit / extend_circuit), by a database lookup, by a simplification '
          'pass, by circuit search, by Block.into_circuit, by replace_subcircuit, by copy / deepcopy; a model or truth '
          'table returned by another query. Such objects differ from hand-built ones in internal details (storage order, '
          'label shapes, blocks, users bookkeeping, object identity, container types). Find such a detail that the code of '
          'this property relies on implicitly and break that reliance. Circuits built gate by gate through the public API '
          'must keep working. A reviewer who reads the diff alone should find it plausible.'),
    'g': ('This time the change must only show when the functionality of the property meets a SECONDARY FEATURE of the '
          'library that ordinary use rarely combines with it: named blocks (nested, overlapping, with explicit inputs), '
          'constant gates that carry operands, the same gate listed at several output positions, outputs that are primary '
          'inputs, inputs nobody reads, dead gates, gates stored in non-topological order, labels containing "@" or other '
          'unusual characters or looking like generated names, a block name equal to a gate label, very long operand lists, '
          'circuits with zero inputs or zero outputs. Pick one such feature, find where the code of this property handles it '
          '(often implicitly) and break exactly that handling. A reviewer who reads the diff alone should find it plausible.'),
    'f': ('This time target a RARELY USED public entry point, alias, convenience wrapper or optional parameter of the '
          'functionality the property talks about - one that ought to behave exactly like the main path (for example an '
          'alternative constructor or class method, a wrapper that forwards to the main function with defaults, the file '
          'variant of a string function, a keyword argument nobody passes, an enum member or mode that tests never select, '
          'a size or parameter value at a boundary such as 0, 1, a power of two or "equal to the length"). Break only that '
          'path; the main path must stay correct. A reviewer who reads the diff alone should find it plausible.'),
    'e': ('This time put the change into code that the property depends on only INDIRECTLY: a helper or utility function, a '
          'validation routine, a base class or mix-in, `__eq__` / `__hash__` / `__copy__` / `__deepcopy__` / `__repr__`, an '
          'exception class hierarchy, a default argument value, a module-level constant or table, an `__init__.py` re-export - '
          'something that the functions named in the property call or rely on. Alternatively change ERROR behaviour in a corner: '
          'a legal input that becomes rejected, or a rejected call that leaves the object half-modified so that the NEXT, '
          'perfectly normal call misbehaves. A reviewer who reads the diff alone should find it plausible.'),
    'd': ('This time aim for a change in a part of the code that the earlier attempts did NOT touch (another function, another '
          'module among those the property depends on, another clause of the property), or for one that is only observable '
          'through STATE: something remembered between two public calls, an argument object that the library keeps or that '
          'the caller keeps using afterwards, an optional argument left at / moved away from its default, an input that is '
          'legal but at the edge of the documented domain (empty, single element, maximal, repeated, already in the desired '
          'form). A reviewer who reads the diff alone should find it plausible.'),
}
DEFAULT_STYLE = ('This time aim for a change whose effect is only observable through an INTERACTION: e.g. a value that is wrong '
                 'only after a particular sequence of two or three public calls, only for a circuit that was built in an unusual '
                 'order or that shares structure in a particular way, only for a rarely used optional argument or argument '
                 'combination, or only at a particular size. A reviewer who reads the diff alone should find it plausible.')

for pid in ids:
    p = props[pid]
    wt = f'/tmp/seed_{pid}'
    sid = f'{pid}{suffix}'
    earlier = []
    for m in sorted(glob.glob(os.path.join(HERE, 'seeded', pid + '*', 'meta.json'))):
        md = json.load(open(m))
        if not md['breaks_property'].startswith(pid):
            continue
        files = ', '.join(f[2:] if f.startswith('b/') else f for f in md['files_changed'])
        earlier.append(f'   - changed {files}; needed: "{md["needs_to_manifest"]}"')
    text = f'''You are working in a scratch git worktree of the Python library SPbSAT/cirbo (Boolean circuit library) at {wt} . Do ALL your work inside {wt}; never touch /repo or /verif (do not even read /verif).

PROPERTY that the library is supposed to satisfy ("{p['title']}"):
{p['statement']}
Quantified over: {p['quantifier']['text']}

TASK: introduce ONE realistic, small change (the kind of bug a maintainer could plausibly introduce: off-by-one, wrong branch taken, a missed bookkeeping update, swapped operands, a condition that is slightly too wide or too narrow, a special case handled wrongly) to the library source under {wt}/cirbo that BREAKS this property, while
 (a) the package still imports, and
 (b) the existing test suite still passes. Check with:
     cd {wt} && /venv/bin/python -m pytest -q -p no:cacheprovider --timeout=900 --continue-on-collection-errors 2>&1 | tail -3
     The expected summary both before and after your change is "2129 passed, 127 deselected, 8 errors" (the 8 collection errors are pre-existing: the third-party packages pysat and mockturtle_wrapper are not installed in this sandbox).
The change must need something SPECIFIC to manifest - an unusual but legal input, a multi-step sequence of operations, a particular combination of options, a particular size, or two cooperating code sites that each look fine alone - not something ordinary use would expose at once. Prefer subtle over blatant. Do not merely revert recent commits of the repository.

Environment notes: use /venv/bin/python; the library is not pip-installed, so run things with PYTHONPATH={wt} . Modules cirbo.sat.*, cirbo.synthesis.circuit_search and cirbo.minimization.subcircuit import third-party packages that are not installed; stand-ins for them exist: add /tmp/sa_env/shims:/tmp/sa_env/deps to PYTHONPATH (then `import pysat`, `import mockturtle_wrapper`, `import z3` work). There is no network.
'''
    if earlier:
        text += f'''

DIVERSITY REQUIREMENT: earlier, independent attempts already produced these changes for this property:
{chr(10).join(earlier)}
Do NOT repeat those ideas or near variants of them. Pick a DIFFERENT function / mechanism / clause of the property. {STYLE.get(suffix, DEFAULT_STYLE)}
'''
    text += f'''
DELIVERABLES (all inside {wt}):
 1. Your change, left applied but UNCOMMITTED in the worktree (so that `git -C {wt} diff` shows exactly it). Only files under cirbo/ may change.
 2. A demonstration {wt}/demo_{sid}.py : a small standalone program that exits 0 on the unmodified code and exits non-zero (failed assertion) with your change. It is run as:
      cd {wt} && PYTHONPATH={wt}:/tmp/sa_env/shims:/tmp/sa_env/deps /venv/bin/python demo_{sid}.py
    Verify BOTH outcomes yourself. Do NOT use `git stash` (the stash is shared by several worktrees of this repository that other people are using concurrently). Instead save your change with `git -C {wt} diff > /tmp/{sid}_change.patch`, restore the unmodified code with `git -C {wt} checkout -- cirbo`, run the demo, then re-apply with `git -C {wt} apply /tmp/{sid}_change.patch` ( demo_{sid}.py is untracked so it stays in place).
 3. Final answer (plain text): the file(s) and function changed, one paragraph on what the bug is and exactly what is needed to trigger it, and the commands you ran with their results (test-suite summary line, demo exit codes before/after).
'''
    open(f'/tmp/sa_prompts/{sid}.txt', 'w').write(text)
    print('wrote', f'/tmp/sa_prompts/{sid}.txt', f'({len(earlier)} earlier changes listed)')
