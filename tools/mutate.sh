#!/bin/sh
# usage: tools/mutate.sh <PROP[,PROP..]> <relative file under /repo> <python-regex-or-literal old> <new> [tier]
# Copies /repo/cirbo to a scratch tree, applies ONE literal replacement (first occurrence unless ALL=1),
# runs the given checks against it with VERIF_REPO, prints exit codes, removes the scratch tree.
set -e
PROPS="$1"; FILE="$2"; OLD="$3"; NEW="$4"; TIER="${5:-quick}"
S=$(mktemp -d /tmp/cirbo_mut.XXXXXX)
mkdir -p "$S/cirbo"
rsync -a --exclude '__pycache__' --exclude 'data/*.xz' /repo/cirbo/ "$S/cirbo/"
ln -s /repo/cirbo/data/aig_db.bin.xz "$S/cirbo/data/aig_db.bin.xz" 2>/dev/null || true
ln -s /repo/cirbo/data/xaig_db.bin.xz "$S/cirbo/data/xaig_db.bin.xz" 2>/dev/null || true
python3 - "$S/$FILE" "$OLD" "$NEW" <<'PY'
import sys
p, old, new = sys.argv[1:4]
s = open(p).read()
if old not in s:
    print('MUTATION NOT APPLICABLE: pattern not found'); sys.exit(3)
import os
s = s.replace(old, new) if os.environ.get('ALL') else s.replace(old, new, 1)
open(p, 'w').write(s)
PY
for P in $(echo "$PROPS" | tr ',' ' '); do
  set +e
  VERIF_REPO="$S" "$(dirname "$0")/../check" "$P" --tier "$TIER" > "$S/out.$P" 2>&1
  rc=$?
  set -e
  echo "mutant[$FILE: $OLD -> $NEW] $P exit=$rc  $(grep -m1 -A1 VIOLATION "$S/out.$P" | tr '\n' ' ' | cut -c1-300)"
  [ "$rc" = 2 ] && tail -n 15 "$S/out.$P"
done
rm -rf "$S"
