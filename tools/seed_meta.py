#!/usr/bin/env python3
"""tools/seed_meta.py <ID> <property> <detected_by or -> <needs text> [note]  -> writes seeded/<ID>/meta.json"""
import json, os, subprocess, sys
sid, prop, det, needs = sys.argv[1:5]
note = sys.argv[5] if len(sys.argv) > 5 else ''
d = f'/verif/seeded/{sid}'
files = [l.split()[-1] for l in open(f'{d}/patch.diff') if l.startswith('+++ b/')]
meta = {
    'id': sid, 'breaks_property': prop, 'files_changed': files,
    'needs_to_manifest': needs,
    'origin': 'fresh sub-agent given only the property text and its own scratch worktree of /repo (nothing from /verif)',
    'confirmed': {
        'existing_suite_with_change': '2129 passed, 127 deselected, 8 errors (pinned command, run in the scratch worktree)',
        'demo_exit_with_change': 1, 'demo_exit_without_change': 0,
        'how': f'tools/eval_seed.sh {sid} ... (change removed with git checkout -- cirbo and re-applied from patch.diff around the demonstration)',
    },
    'checks_that_catch_it': [x for x in det.split(',') if x and x != '-'],
    'note': note,
    'apply': f'git -C /repo apply /verif/seeded/{sid}/patch.diff ; ./check <ID> ; git -C /repo checkout -- .',
}
json.dump(meta, open(f'{d}/meta.json', 'w'), indent=1)
print('wrote', f'{d}/meta.json')
