#!/usr/bin/env python3
"""tools/class_floor.py [seeds...] [-- IDs...]: runs the quick tier of the given checks (default all) at the given seeds
(default 1..6) against /repo and prints, for every required class, the minimum count seen - a class with a small floor is one
that may starve (exit 2) at some other seed and needs a generator that produces it by construction."""
import json, os, re, subprocess, sys
HERE = os.path.dirname(os.path.dirname(os.path.abspath(__file__)))
args = sys.argv[1:]
ids = []
if '--' in args:
    k = args.index('--'); ids = args[k + 1:]; args = args[:k]
seeds = [int(a) for a in args] or [1, 2, 3, 4, 5, 6]
ids = ids or [f'C{n:02d}' for n in range(1, 21)]
sys.path.insert(0, HERE)
import importlib
floor = {}
for pid in ids:
    spec = importlib.import_module(f'props.{pid.lower()}').SPEC
    req = spec.get('required_classes', {})
    for s in seeds:
        env = dict(os.environ, VERIF_SEED=str(s), VERIF_EVIDENCE_DIR=os.path.join(HERE, '.scratch'))
        out = subprocess.run([os.path.join(HERE, 'check'), pid, '--tier', 'quick'], capture_output=True, text=True, env=env).stdout
        for sub, classes in req.items():
            m = re.search(rf'^  {re.escape(sub)}: .*?classes (.*)$', out, re.M)
            dist = dict((k, int(v)) for k, v in re.findall(r'(?:^|, )(.+?)=(\d+)(?=, |$)', m.group(1))) if m else {}
            for c in classes:
                key = (pid, sub, c)
                floor[key] = min(floor.get(key, 10 ** 9), dist.get(c, 0))
        if 'starvation' in out or 'VIOLATION' in out:
            print(f'!! {pid} seed {s}:', [l for l in out.splitlines() if 'starvation' in l or 'VIOLATION' in l][:2])
for key, v in sorted(floor.items(), key=lambda kv: kv[1]):
    if v < 40:
        print(f'{v:5d}  {key[0]} {key[1]}: {key[2]}')
print('classes checked:', len(floor), 'seeds', seeds)
