#!/bin/sh
# Runs the pinned repository test-suite (guard off) and prints the pass/fail summary line.
cd /repo && /venv/bin/python -m pytest -ra -q -p no:cacheprovider --timeout=900 --continue-on-collection-errors 2>&1 | tail -n 3
