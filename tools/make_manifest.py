#!/usr/bin/env python3
"""Regenerates /verif/MANIFEST.json from the table below (keeps it schema-valid)."""
import json
import os

HERE = os.path.dirname(os.path.dirname(os.path.abspath(__file__)))

# id -> (technique, level text, level note, design_ref)
CHECKS = {}


def add(pid, technique, text, note):
    CHECKS[pid] = (technique, text, note)


exec(open(os.path.join(HERE, 'tools', 'manifest_table.py')).read())
exec(open(os.path.join(HERE, 'tools', 'manifest_tail.py')).read())

BASELINE = ("cd /repo && /venv/bin/python -m pytest -ra -q -p no:cacheprovider --timeout=900 "
            "--continue-on-collection-errors")
manifest = {
    'version': 1,
    'setup_cmd': './setup.sh',
    'hooks': {
        'guard': 'CIRBO_VERIF',
        'enable': 'no source hooks: checks import cirbo from /repo working tree (VERIF_REPO overrides) and '
                  'control uuid.uuid4 / PYTHONHASHSEED from outside',
        'baseline_off_cmd': BASELINE,
        'source_commits': [],
        'add_only': True,
    },
    'engines': [
        {'name': 'hypothesis-runner', 'path': 'vlib/runner.py',
         'serves_properties': sorted(CHECKS),
         'kind_free_text': 'Hypothesis 6.168 strategies / rule-based state machines driving plain check '
                           'functions over JSON cases, 16 sharded worker processes, collect-then-shrink, '
                           'replay without Hypothesis'},
    ],
    'checks': [],
    'not_applicable': NOT_APPLICABLE,
    'notes': NOTES,
}
for pid in sorted(CHECKS):
    technique, text, note = CHECKS[pid]
    manifest['checks'].append({
        'property_id': pid,
        'quick_cmd': f'./check {pid} --tier quick',
        'thorough_cmd': f'./check {pid} --tier thorough',
        'evidence_file': f'evidence/{pid}.json',
        'replay_cmd_template': f'./check {pid} --replay {{path}}',
        'engine': 'hypothesis-runner',
        'level_claimed': {'category': 'exploration', 'text': text, 'design_ref': f'DESIGN.md section 4, {pid}'},
        'level_note': note,
        'technique': technique,
    })
with open(os.path.join(HERE, 'MANIFEST.json'), 'w') as f:
    json.dump(manifest, f, indent=1)
print('MANIFEST.json written with', len(manifest['checks']), 'checks;', len(NOT_APPLICABLE), 'not applicable')
