#!/bin/sh
# usage: tools/eval_round.sh <suffix> [PROP ...]  -- evaluate the seeds <PROP><suffix> whose demo exists in /tmp/seed_<PROP>
SUF="$1"; shift
PROPS="$@"; [ -z "$PROPS" ] && PROPS="C01 C02 C03 C04 C05 C06 C07 C08 C09 C10 C11 C12 C13 C14 C15 C16 C17 C18 C19 C20"
for P in $PROPS; do
  [ -f /tmp/seed_$P/demo_$P$SUF.py ] || { echo "$P$SUF: no demo yet"; continue; }
  "$(dirname "$0")/eval_seed.sh" "$P$SUF" "$P" 2>&1 | grep -E "^seed|check" | cut -c1-300
done
