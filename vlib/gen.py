"""Hypothesis strategies producing JSON-serialisable netlists and helpers (DESIGN.md 3.2)."""

from __future__ import annotations

from hypothesis import strategies as st

from vlib import refsem

NARY = list(refsem.NARY)
FIXED = list(refsem.FIXED_BINARY)
UNARY = list(refsem.UNARY)
CONST = list(refsem.CONST)
ALL_TYPES = NARY + FIXED + UNARY + CONST

KEYWORD_PREFIXES = [
    'input', 'INPUT', 'Input_', 'output', 'OUTPUT', 'Output9', 'vdd', 'VDD', 'buff',
    'BUFF', 'not', 'and', 'inputs', 'outputx', 'gnd',
]
# labels that ARE a keyword / operator name of the bench format (a label that is a keyword also begins with it)
BARE_KEYWORDS = ['input', 'INPUT', 'Input', 'output', 'OUTPUT', 'Output', 'input', 'output', 'vdd', 'VDD', 'gnd', 'buff', 'BUFF',
                 'not', 'NOT', 'and', 'AND', 'or', 'xor', 'iff', 'inputoutput', 'INPUTOUTPUT']
_IDENT_ALPHABET = 'abcxyzABCXYZ0123456789_@'


def _label(style: str, kind: str, idx: int, salt: str) -> str:
    if style == 'plain':
        return f'{"x" if kind == "i" else "g"}{idx}'
    if style == 'digits':
        return str(idx)
    if style == 'mixed':
        return f'{salt}{idx}'
    if style == 'keyword':
        return f'{salt}{idx}'
    raise ValueError(style)


# labels that look like names the library generates for itself or uses as sentinels (a legal label is any string)
SPECIAL_LABELS = ['_PLACEHOLDER_STR_', '_PLACEHOLDER_STR_', 'inf_label', 'big_or', 'big_or', 'circuit1', 'circuit2', 'pairwise_xor',
                  'circuit1@0', 'circuit2@g1', 'circuit2@x0', 'pairwise_xor@xor_0', 'xor_0', 'not_g1', 'not_x0', 'not_0', 's2', 's3',
                  'x_0', 'z_0', 'new_gate_LT_for_g1', 'new_0', 'new_9', 'new_14', 'new_23', 'new_40', 'N@g1', 'B@x0', 'sub0@g1',
                  'block_for_deleting', '@', 'g1@', '0', '1',
                  # falsy but legal: the empty label (twice: it has to show up often enough to sit at an interesting place)
                  '', '']


@st.composite
def label_list(draw, n_in: int, n_g: int, styles=('plain', 'digits', 'mixed'), empty_label: bool = True):
    """n_in + n_g pairwise distinct labels; returns (style, labels)."""
    style = draw(st.sampled_from(list(styles)))
    total = n_in + n_g
    labels = []
    used: set[str] = set()
    for k in range(total):
        kind = 'i' if k < n_in else 'g'
        if style == 'mixed':
            salt = draw(st.text(alphabet=_IDENT_ALPHABET, min_size=1, max_size=4))
        elif style == 'keyword':
            # mostly keyword-prefixed, sometimes ordinary
            if draw(st.integers(0, 3)) == 0:
                salt = 'n'
            else:
                salt = draw(st.sampled_from(KEYWORD_PREFIXES))
        else:
            salt = ''
        lab = _label(style, kind, k, salt)
        if style == 'mixed' and draw(st.integers(0, 5)) == 0:
            lab = draw(st.sampled_from(SPECIAL_LABELS if empty_label else [x for x in SPECIAL_LABELS if x]))
        if style == 'keyword' and draw(st.integers(0, 4)) == 0:
            lab = draw(st.sampled_from(BARE_KEYWORDS))
        if lab in used:
            lab = f'{lab}_u{k}'
        used.add(lab)
        labels.append(lab)
    if empty_label and style == 'mixed' and total and '' not in used and draw(st.integers(0, 4)) == 0:
        # one gate - anywhere - carries the empty label (legal, and falsy)
        labels[draw(st.integers(0, total - 1))] = ''
    return style, labels


def _arity_for(draw, typ: str, max_arity: int, const_operands=(0,), avail: int = 1, wide_arity: int = 0) -> int:
    if typ in CONST:
        if avail == 0 or len(const_operands) == 1 and const_operands[0] == 0:
            return 0
        return draw(st.sampled_from(list(const_operands)))
    if typ in UNARY:
        return 1
    if typ in FIXED:
        return 2
    # n-ary: mostly 2, sometimes more, now and then very many (operands then repeat)
    if max_arity <= 2:
        return 2
    if wide_arity > max_arity and draw(st.integers(0, 6)) == 0:
        return draw(st.integers(max_arity + 1, wide_arity))
    return draw(st.sampled_from([a for a in (2, 2, 2, 3, 3, 4, 5) if a <= max_arity]))


@st.composite
def netlists(
    draw,
    *,
    min_inputs: int = 0,
    max_inputs: int = 5,
    min_gates: int = 0,
    max_gates: int = 15,
    types=None,
    max_arity: int = 4,
    styles=('plain', 'digits', 'mixed'),
    min_outputs: int = 0,
    max_outputs: int = 4,
    outputs_from: str = 'any',  # 'any' | 'gates'
    recency_bias: bool = True,
    dup_rate: int = 0,  # out of 8: chance that a gate literally duplicates an earlier gate
    const_operands=(0,),  # admissible operand counts of ALWAYS_TRUE / ALWAYS_FALSE gates
    sinks_as_outputs: bool = False,  # additionally list every gate nobody uses as an output (no dead logic)
    empty_label: bool = True,  # the empty string may be a label (not where labels have to be identifiers of a text format)
    wide_arity: int = 0,  # if > max_arity: one n-ary gate in seven has max_arity+1 .. wide_arity operands
):
    """Well-formed DAG netlist; gates listed inputs first then topologically."""
    types = list(types) if types is not None else ALL_TYPES
    n_in = draw(st.integers(min_inputs, max_inputs))
    n_g = draw(st.integers(min_gates, max_gates))
    style, labels = draw(label_list(n_in, n_g, styles, empty_label))
    gates = [[labels[i], 'INPUT', []] for i in range(n_in)]
    nonconst = [t for t in types if t not in CONST]
    consts = [t for t in types if t in CONST]
    for k in range(n_in, n_in + n_g):
        avail = k
        if avail == 0:
            if not consts:
                break
            typ = draw(st.sampled_from(consts))
        else:
            typ = draw(st.sampled_from(types))
        if dup_rate and k > n_in and draw(st.integers(0, 7)) < dup_rate:
            src = gates[n_in + draw(st.integers(0, k - n_in - 1))]
            if src[1] in types:
                ops = list(src[2])
                # (for the order-sensitive two-operand types the swapped twin is the interesting near duplicate)
                variant = draw(st.sampled_from(['same', 'rotate', 'repeat_operand', 'drop_operand', 'retype'] if src[1] in NARY
                                               else ['same', 'rotate', 'rotate', 'retype']))
                if variant == 'retype' and len(ops) == 2:
                    # the same ordered operand pair under another two-operand type
                    others = [t for t in types if (t in NARY or t in FIXED) and t != src[1]]
                    if others:
                        gates.append([labels[k], draw(st.sampled_from(others)), ops])
                        continue
                if variant == 'rotate' and len(ops) >= 2:
                    ops = ops[1:] + ops[:1]
                elif variant == 'repeat_operand' and src[1] in NARY and len(ops) < max_arity:
                    # near duplicate: same operand set, one operand repeated (matters for XOR/NXOR parity)
                    ops = ops + [ops[draw(st.integers(0, len(ops) - 1))]]
                elif variant == 'drop_operand' and src[1] in NARY and len(ops) >= 3:
                    del ops[draw(st.integers(0, len(ops) - 1))]
                gates.append([labels[k], src[1], ops])
                continue
        ar = _arity_for(draw, typ, max_arity, const_operands, avail, wide_arity)
        ops = []
        for _ in range(ar):
            if recency_bias and avail > 4 and draw(st.booleans()):
                off = draw(st.integers(0, 3))
            else:
                off = draw(st.integers(0, avail - 1))
            ops.append(labels[avail - 1 - off])
        gates.append([labels[k], typ, ops])
    total = len(gates)
    outs = []
    if total > 0:
        if outputs_from == 'gates' and total > n_in:
            lo, hi = n_in, total - 1
        else:
            lo, hi = 0, total - 1
        n_out = draw(st.sampled_from([k for k in (1, 2, 1, 3, 2, 1, 4, 5, 6, 0) if min_outputs <= k <= max_outputs]))
        for _ in range(n_out):
            off = draw(st.integers(0, hi - lo))
            outs.append(gates[hi - off][0])
    if sinks_as_outputs:
        used = {o for g in gates for o in g[2]}
        for g in gates:
            if g[1] != 'INPUT' and g[0] not in used and g[0] not in outs:
                outs.append(g[0])
    inputs = [labels[i] for i in range(n_in)]
    if n_in > 1 and draw(st.integers(0, 4)) == 0:
        inputs = draw(st.permutations(inputs))
    return {'inputs': list(inputs), 'gates': gates, 'outputs': outs, 'style': style}


@st.composite
def routes(draw, nl: dict, allow_bench: bool = True):
    """How to turn the netlist into a Circuit (storage order is part of the case)."""
    kinds = ['emplace', 'add_gate', 'rename']
    if allow_bench and nl.get('style') in ('plain', 'digits') and nl['gates']:
        kinds.append('bench')
    kind = draw(st.sampled_from(kinds))
    route = {'kind': kind}
    n = len(nl['gates'])
    if kind == 'rename' and n:
        k = draw(st.integers(0, min(n, 6)))
        route['moves'] = [draw(st.integers(0, n - 1)) for _ in range(k)]
    if kind == 'bench':
        route['keys'] = [draw(st.integers(0, 7)) for _ in range(n)]
    # a past (scratch gates added and removed again) and the way the object is obtained (copy / deep copy / pickle)
    sc = draw(st.sampled_from([0, 0, 0, 1, 2, 3]))
    if sc and n:
        route['scratch'] = sc
        route['scratch_seed'] = draw(st.integers(0, 40))
    if kind != 'bench' and n and draw(st.integers(0, 3)) == 0:
        # read-only public calls in the middle of the construction (positions among the gates, taken modulo)
        route['observe'] = [draw(st.integers(0, 60)) for _ in range(draw(st.integers(1, 2)))]
    ob = draw(st.sampled_from([None, None, None, None, 'copy', 'deepcopy', 'pickle', 'composed']))
    if ob:
        route['obtain'] = ob
    return route


@st.composite
def free_routes(draw, allow_bench: bool = True):
    """A construction route for a netlist that is only known inside the check (indices are taken modulo its size)."""
    kind = draw(st.sampled_from(['emplace', 'add_gate', 'rename', 'rename'] + (['bench', 'bench'] if allow_bench else [])))
    route = {'kind': kind}
    if kind == 'rename':
        route['moves'] = [draw(st.integers(0, 60)) for _ in range(draw(st.integers(1, 5)))]
    if kind == 'bench':
        route['keys'] = [draw(st.integers(0, 7)) for _ in range(draw(st.integers(3, 12)))]
    elif draw(st.integers(0, 3)) == 0:
        route['observe'] = [draw(st.integers(0, 60)) for _ in range(draw(st.integers(1, 2)))]
    return route


def classify(nl: dict) -> set[str]:
    """Shape classes of a netlist, for distribution accounting."""
    cls: set[str] = set()
    labs = [g[0] for g in nl['gates']]
    typ = {g[0]: g[1] for g in nl['gates']}
    used: set[str] = set()
    for lab, t, ops in nl['gates']:
        if t in NARY and len(ops) >= 3:
            cls.add('nary>=3')
        if t in NARY and len(ops) >= 9:
            cls.add('nary>=9')
        if len(set(ops)) < len(ops):
            cls.add('dup_operand')
        if t in CONST:
            cls.add('constant')
            if ops:
                cls.add('constant_with_operands')
        if t in ('LIFF', 'RIFF', 'LNOT', 'RNOT'):
            cls.add('LR_gate')
        if t in ('GT', 'LT', 'GEQ', 'LEQ'):
            cls.add('cmp_gate')
        used.update(ops)
    outs = nl['outputs']
    if any(typ.get(o) == 'INPUT' for o in outs):
        cls.add('output_is_input')
    if len(set(outs)) < len(outs):
        cls.add('dup_output')
    if not outs:
        cls.add('no_outputs')
    reach = refsem.reachable(nl)
    if any(typ[l] != 'INPUT' and l not in reach for l in labs):
        cls.add('dead_gate')
    if any(typ[l] == 'INPUT' and l not in reach for l in labs):
        cls.add('unused_input')
    if not nl['inputs']:
        cls.add('zero_inputs')
    if any(len([1 for _, _, ops in nl['gates'] for o in ops if o == l]) >= 2 for l in labs):
        cls.add('sharing')
    return cls


def nontrivial_basic(nl: dict) -> bool:
    """>=1 non-input gate reachable from an output and >=2 distinct gate types."""
    typ = {g[0]: g[1] for g in nl['gates']}
    reach = refsem.reachable(nl)
    rt = {typ[l] for l in reach if typ[l] != 'INPUT'}
    return len(rt) >= 1 and len({t for t in typ.values()}) >= 2
