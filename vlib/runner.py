"""Runner: seeds, sharding, collection, shrinking policy, replay, evidence (DESIGN.md 3.5/3.6).

Parent:  python -m vlib.runner <ID> --tier quick|thorough        (driven by ./check)
         python -m vlib.runner <ID> --replay <file>
Worker:  python -m vlib.runner <ID> --worker <shard> <nshards> <outfile> --tier T   (internal)
"""

from __future__ import annotations

import argparse
import collections
import hashlib
import importlib
import json
import os
import subprocess
import sys
import time
import traceback

from vlib import env

VERIF_DIR = env.VERIF_DIR
HISTORY_CAP = 3000
SHRINK_BUDGET = {'quick': 25, 'thorough': 180}  # seconds a worker keeps shrinking after its first failure


class Violation(Exception):
    """A generated case on which the property does not hold."""

    def __init__(self, bucket: str, message: str):
        super().__init__(f'[{bucket}] {message}')
        self.bucket = bucket
        self.message = message


class Sub:
    """One generated sub-check of a property."""

    def __init__(self, name, strategy, check, budget, *, shrink_quick=True, max_shards=16,
                 stateful=None):
        self.name = name
        self.strategy = strategy  # callable(tier) -> hypothesis strategy of JSON-able cases
        self.check = check  # callable(case) -> info dict | None ; raises Violation
        self.budget = budget  # {'quick': n, 'thorough': n}
        self.shrink_quick = shrink_quick
        self.max_shards = max_shards
        self.stateful = stateful  # callable(tier, record) -> RuleBasedStateMachine class


def derive_seed(*parts) -> int:
    h = hashlib.sha1(':'.join(str(p) for p in parts).encode()).hexdigest()
    return int(h[:8], 16)


def load_spec(pid: str):
    env.setup_paths()
    if VERIF_DIR not in sys.path:
        sys.path.append(VERIF_DIR)
    mod = importlib.import_module(f'props.{pid.lower()}')
    return mod.SPEC


def cirbo_frame(tb) -> str | None:
    """Innermost traceback frame that lies in the cirbo tree under test (or a shim)."""
    found = None
    root = env.REPO + os.sep
    frames = traceback.extract_tb(tb)
    own = (os.path.join(VERIF_DIR, 'props') + os.sep, os.path.join(VERIF_DIR, 'vlib') + os.sep)
    if frames and os.path.abspath(frames[-1].filename).startswith(own):
        # raised by harness code itself (for instance inside a callback that cirbo invoked): a harness error
        return None
    for fs in frames:
        if os.path.abspath(fs.filename).startswith(root):
            found = f'{os.path.basename(fs.filename)}:{fs.name}'
    return found


def shorten(obj, limit=3000):
    s = json.dumps(obj, default=str)
    if len(s) <= limit:
        return obj
    return {'truncated_json': s[:limit] + '...'}


# ---------------------------------------------------------------------------
# worker


def run_sub_in_worker(spec, sub: Sub, tier: str, seed: int, shard: int, nshards: int) -> dict:
    import hypothesis
    from hypothesis import HealthCheck, Phase, given, settings
    from vlib import findings

    total = sub.budget[tier]
    n = total // nshards + (1 if shard < total % nshards else 0)
    res = {
        'evaluations': 0, 'nontrivial': [], 'classes': {}, 'samples': [], 'known_hits': {},
        'violation': None, 'error': None, 'wall_s': 0.0, 'counters': {},
    }
    if n <= 0:
        return res
    nt_seen: set[str] = set()
    state = {'last': None}
    # what this process executed before (most recent HISTORY_CAP cases): a failure that needs earlier calls of the
    # same process (state kept by the library between calls) is replayed together with the part of it that matters
    history: collections.deque = collections.deque(maxlen=HISTORY_CAP)
    t0 = time.time()

    def account(case, info):
        res['evaluations'] += 1
        info = info or {}
        for c in info.get('cls', ()):
            res['classes'][c] = res['classes'].get(c, 0) + 1
        for k, v in (info.get('count') or {}).items():
            res['counters'][k] = res['counters'].get(k, 0) + v
        if info.get('nt'):
            key = info.get('key')
            h = hashlib.sha1(json.dumps(key if key is not None else case, sort_keys=True,
                                        default=str).encode()).hexdigest()[:12]
            if h not in nt_seen:
                nt_seen.add(h)
                if len(res['samples']) < 3:
                    res['samples'].append({'sub': sub.name, 'case': shorten(info.get('sample', case)),
                                           'classes': sorted(info.get('cls', ()))})

    # Shrinking is bounded in time: SHRINK_BUDGET seconds after the first failure of this worker, candidates that have not
    # been seen failing are no longer executed (they count as passing), so that the shrinker settles on the smallest
    # failing case it has; cases already seen failing keep failing, which keeps the final re-run consistent.
    failing: dict = {}
    budget_s = SHRINK_BUDGET.get(tier, 60)
    try:
        # the library's own cap on the shrink phase (300 s by default), for the cost of re-generating large cases
        import hypothesis.internal.conjecture.engine as _engine

        _engine.MAX_SHRINKING_SECONDS = budget_s
    except Exception:  # noqa
        pass

    def case_key(case):
        return hashlib.sha1(json.dumps(case, sort_keys=True, default=str).encode()).hexdigest()

    def remember(case, v):
        state['last'] = (case, v.bucket, v.message, list(history)[:-1])
        state.setdefault('first_fail_t', time.time())
        failing[case_key(case)] = (v.bucket, v.message, state['last'][3])

    def run_case(case):
        if 'first_fail_t' in state and time.time() - state['first_fail_t'] > budget_s:
            known = failing.get(case_key(case))
            if known is None:
                return
            state['last'] = (case, known[0], known[1], known[2])
            raise Violation(known[0], known[1])
        history.append(case)
        try:
            info = sub.check(case)
        except Violation as v:
            kf = findings.match(spec['id'], sub.name, v, case, sub.check)
            if kf is not None:
                res['known_hits'][kf] = res['known_hits'].get(kf, 0) + 1
                res['evaluations'] += 1
                return
            remember(case, v)
            raise
        except (hypothesis.errors.HypothesisException, KeyboardInterrupt):
            raise
        except BaseException as e:  # noqa
            if type(e).__module__.startswith('hypothesis'):
                raise
            fr = cirbo_frame(e.__traceback__)
            if fr is None:
                raise  # harness error
            v = Violation(f'crash:{type(e).__name__}@{fr}', f'{type(e).__name__}: {e}')
            kf = findings.match(spec['id'], sub.name, v, case, sub.check)
            if kf is not None:
                res['known_hits'][kf] = res['known_hits'].get(kf, 0) + 1
                res['evaluations'] += 1
                return
            remember(case, v)
            raise v from e
        account(case, info)

    phases = [Phase.generate, Phase.shrink]
    if tier == 'quick' and not sub.shrink_quick:
        phases = [Phase.generate]
    st_settings = settings(
        max_examples=n, deadline=None, database=None, derandomize=False,
        report_multiple_bugs=False, phases=phases, print_blob=False,
        suppress_health_check=[HealthCheck.too_slow, HealthCheck.data_too_large,
                               HealthCheck.large_base_example],
        verbosity=hypothesis.Verbosity.quiet,
    )
    hseed = derive_seed(seed, spec['id'], sub.name, shard)
    try:
        if sub.stateful is not None:
            from hypothesis.stateful import run_state_machine_as_test

            class Hooks:
                @staticmethod
                def passed(case, info):
                    account(case, info)

                @staticmethod
                def failed(case, v):
                    # returns normally when the failure belongs to a listed known finding
                    kf = findings.match(spec['id'], sub.name, v, case, sub.check)
                    if kf is not None:
                        res['known_hits'][kf] = res['known_hits'].get(kf, 0) + 1
                        res['evaluations'] += 1
                        return
                    state['last'] = (case, v.bucket, v.message, None)
                    raise v

            machine = sub.stateful(tier, Hooks)
            steps = getattr(machine, 'STEP_COUNT', {}).get(tier, 30)
            st2 = settings(st_settings, stateful_step_count=steps)
            run_state_machine_as_test(hypothesis.seed(hseed)(machine), settings=st2)
        else:
            strat = sub.strategy(tier)

            @hypothesis.seed(hseed)
            @settings(st_settings)
            @given(strat)
            def test(case):
                run_case(case)

            test()
    except Violation:
        case, bucket, message, hist = state['last']
        res['violation'] = {'sub': sub.name, 'bucket': bucket, 'message': message, 'case': case, 'history': hist}
    except BaseException as e:  # noqa
        if state['last'] is not None and isinstance(e.__cause__ or e, Violation):
            case, bucket, message, hist = state['last']
            res['violation'] = {'sub': sub.name, 'bucket': bucket, 'message': message, 'case': case, 'history': hist}
        elif state['last'] is not None and 'Flaky' in type(e).__name__:
            case, bucket, message, hist = state['last']
            res['violation'] = {'sub': sub.name, 'bucket': bucket, 'history': hist,
                                'message': message + ' (reported flaky by hypothesis)', 'case': case}
        else:
            res['error'] = ''.join(traceback.format_exception(type(e), e, e.__traceback__))[-6000:]
    res['nontrivial'] = sorted(nt_seen)
    res['wall_s'] = time.time() - t0
    return res


def worker_main(pid: str, tier: str, seed: int, shard: int, nshards: int, outfile: str) -> int:
    spec = load_spec(pid)
    out = {'shard': shard, 'hashseed': os.environ.get('PYTHONHASHSEED'), 'subs': {}}
    for sub in spec['subs']:
        if shard >= min(nshards, sub.max_shards):
            continue
        eff = min(nshards, sub.max_shards)
        out['subs'][sub.name] = run_sub_in_worker(spec, sub, tier, seed, shard, eff)
    out['sharded'] = {}
    for name, fn in (spec.get('sharded') or {}).items():
        t0 = time.time()
        rec = {'result': None, 'violation': None, 'error': None}
        try:
            rec['result'] = fn(tier, shard, nshards, seed)
        except Violation as v:
            rec['violation'] = {'sub': name, 'bucket': v.bucket, 'message': v.message,
                                'case': getattr(v, 'case', None)}
        except BaseException as e:  # noqa
            fr = cirbo_frame(e.__traceback__)
            if fr is not None:
                rec['violation'] = {'sub': name, 'bucket': f'crash:{type(e).__name__}@{fr}',
                                    'message': f'{type(e).__name__}: {e}', 'case': getattr(e, 'case', None)}
            else:
                rec['error'] = ''.join(traceback.format_exception(type(e), e, e.__traceback__))[-6000:]
        rec['wall_s'] = time.time() - t0
        out['sharded'][name] = rec
    with open(outfile, 'w') as f:
        json.dump(out, f, default=str)
    return 0


# ---------------------------------------------------------------------------
# replay


def replay_file(spec, path: str) -> tuple[str, str]:
    """Returns (status, detail): status in {'pass','violation','error'}."""
    with open(path) as f:
        rec = json.load(f)
    subs = {s.name: s for s in spec['subs']}
    sub = subs.get(rec['sub'])
    if rec['sub'] in (spec.get('sharded') or {}) and rec['sub'] in (spec.get('replay') or {}):
        try:
            spec['replay'][rec['sub']](rec['case'])
        except Violation as v:
            return 'violation', f'{v.bucket}: {v.message}'
        except BaseException as e:  # noqa
            fr = cirbo_frame(e.__traceback__)
            if fr is None:
                return 'error', ''.join(traceback.format_exception(type(e), e, e.__traceback__))[-3000:]
            return 'violation', f'crash:{type(e).__name__}@{fr}: {e}'
        return 'pass', ''
    if rec['sub'] == 'exhaustive':
        try:
            for fn in (spec.get('exhaustive') or {}).values():
                fn(rec.get('tier', 'quick'))
        except Violation as v:
            return 'violation', f'{v.bucket}: {v.message}'
        except BaseException as e:  # noqa
            fr = cirbo_frame(e.__traceback__)
            if fr is None:
                return 'error', ''.join(traceback.format_exception(type(e), e, e.__traceback__))[-3000:]
            return 'violation', f'crash:{type(e).__name__}@{fr}: {e}'
        return 'pass', ''
    if sub is None:
        return 'error', f'unknown sub-check {rec["sub"]}'
    for earlier in rec.get('history') or []:
        # what the failing process had executed before; outcomes of these are not judged here
        try:
            sub.check(earlier)
        except BaseException:  # noqa
            pass
    try:
        sub.check(rec['case'])
    except Violation as v:
        return 'violation', f'{v.bucket}: {v.message}'
    except BaseException as e:  # noqa
        fr = cirbo_frame(e.__traceback__)
        if fr is None:
            return 'error', ''.join(traceback.format_exception(type(e), e, e.__traceback__))[-3000:]
        return 'violation', f'crash:{type(e).__name__}@{fr}: {e}'
    return 'pass', ''


def replay_main(pid: str, path: str) -> int:
    spec = load_spec(pid)
    with open(path) as f:
        rec = json.load(f)
    hs = rec.get('hashseed')
    if hs is not None and os.environ.get('PYTHONHASHSEED') != str(hs) and not os.environ.get('VERIF_NO_REEXEC'):
        envv = dict(os.environ, PYTHONHASHSEED=str(hs), VERIF_NO_REEXEC='1')
        return subprocess.call([sys.executable, '-B', '-m', 'vlib.main', pid, '--replay', path],
                               env=envv, cwd=VERIF_DIR)
    status, detail = replay_file(spec, path)
    if status == 'violation':
        print(f'VIOLATION property={pid} replay={path}')
        print('  ' + detail[:700])
        return 1
    if status == 'error':
        print('HARNESS-ERROR during replay:\n' + detail)
        return 2
    print(f'replay passed: property={pid} {path}')
    return 0


def _write_replay(path, rec, history):
    with open(path, 'w') as f:
        json.dump(dict(rec, history=history) if history else rec, f, indent=1, default=str)


def _replay_reproduces(pid, path) -> bool:
    r = subprocess.run([sys.executable, '-B', '-m', 'vlib.main', pid, '--replay', path], cwd=VERIF_DIR,
                       stdout=subprocess.PIPE, stderr=subprocess.STDOUT, env=dict(os.environ))
    return r.returncode == 1


def settle_replay(pid, path, rec, history, budget=70) -> str:
    """Writes the replay file and makes sure it fails in a fresh process. A failure that needs calls the process
    made earlier (library state kept between calls) gets the smallest part of that history found by delta debugging."""
    _write_replay(path, rec, None)
    if not history or _replay_reproduces(pid, path):
        return ''
    runs = [0]

    def fails(h):
        runs[0] += 1
        _write_replay(path, rec, h)
        return _replay_reproduces(pid, path)

    if not fails(history):
        _write_replay(path, rec, history[-200:])
        return '[the saved case passes in a fresh process, also after the earlier cases of its process: state-dependent]'
    cur, n = list(history), 2
    while len(cur) >= 2 and runs[0] < budget:
        size = max(1, len(cur) // n)
        chunks = [cur[i:i + size] for i in range(0, len(cur), size)]
        reduced = False
        for i, ch in enumerate(chunks):           # a single chunk
            if runs[0] >= budget:
                break
            if len(ch) < len(cur) and fails(ch):
                cur, n, reduced = ch, 2, True
                break
        if not reduced:
            for i in range(len(chunks)):          # a complement
                if runs[0] >= budget:
                    break
                comp = [x for j, ch in enumerate(chunks) if j != i for x in ch]
                if len(comp) < len(cur) and comp and fails(comp):
                    cur, n, reduced = comp, max(n - 1, 2), True
                    break
        if not reduced:
            if n >= len(cur):
                break
            n = min(len(cur), n * 2)
    _write_replay(path, rec, cur)
    return f'[needs {len(cur)} earlier case(s) of the same process, saved in the replay file]'


# ---------------------------------------------------------------------------
# parent


def parent_main(pid: str, tier: str) -> int:
    from vlib import findings

    t0 = time.time()
    seed = int(os.environ.get('VERIF_SEED', '1') or '1')
    spec = load_spec(pid)
    nshards = int(os.environ.get('VERIF_SHARDS', '16'))
    scratch = os.path.join(VERIF_DIR, '.scratch', f'{pid}-{os.getpid()}')
    os.makedirs(scratch, exist_ok=True)
    os.makedirs(os.path.join(VERIF_DIR, 'replays'), exist_ok=True)
    os.makedirs(os.path.join(VERIF_DIR, 'evidence'), exist_ok=True)
    lines: list[str] = []
    violations: list[dict] = []
    errors: list[str] = []

    # 0. oracle self-check + exhaustive parts (in-process, deterministic)
    extra: dict = {}
    try:
        for name, fn in (spec.get('exhaustive') or {}).items():
            r = fn(tier)
            extra[name] = r
    except Violation as v:
        violations.append({'sub': 'exhaustive', 'bucket': v.bucket, 'message': v.message,
                           'case': getattr(v, 'case', None)})
    except BaseException as e:  # noqa
        fr = cirbo_frame(e.__traceback__)
        if fr is not None:
            violations.append({'sub': 'exhaustive', 'bucket': f'crash:{type(e).__name__}@{fr}',
                               'message': str(e), 'case': None})
        else:
            errors.append(''.join(traceback.format_exception(type(e), e, e.__traceback__)))

    # 1. regress replay (saved minimal inputs of all confirmed findings)
    regress_dir = os.path.join(VERIF_DIR, 'regress', pid)
    regress_total = regress_fail = 0
    known_still_failing: set[str] = set()
    kf_entries = findings.entries(pid)
    if os.path.isdir(regress_dir):
        for fn in sorted(os.listdir(regress_dir)):
            if not fn.endswith('.json'):
                continue
            path = os.path.join(regress_dir, fn)
            regress_total += 1
            with open(path) as f:
                rec = json.load(f)
            envv = dict(os.environ, PYTHONHASHSEED=str(rec.get('hashseed', 0)), VERIF_NO_REEXEC='1')
            p = subprocess.run([sys.executable, '-B', '-m', 'vlib.main', pid, '--replay', path],
                               env=envv, cwd=VERIF_DIR, capture_output=True, text=True)
            if p.returncode == 0:
                continue
            rel = os.path.relpath(path, VERIF_DIR)
            known = [e for e in kf_entries if e.get('status') == 'known' and e.get('regress') == rel]
            if p.returncode == 1 and known:
                known_still_failing.add(known[0]['id'])
                continue
            regress_fail += 1
            if p.returncode == 1:
                violations.append({'sub': rec['sub'], 'bucket': 'regress:' + fn,
                                   'message': p.stdout.strip()[-800:], 'case': rec['case'],
                                   'replay_path': path})
            else:
                errors.append(f'regress replay {fn} harness error:\n{p.stdout[-2000:]}{p.stderr[-2000:]}')

    # 2. generated search, sharded
    procs = []
    for shard in range(nshards):
        outfile = os.path.join(scratch, f'shard{shard}.json')
        hs = (seed * 7919 + shard * 104729 + 1) % 4294967295
        envv = dict(os.environ, PYTHONHASHSEED=str(hs), VERIF_NO_REEXEC='1')
        cmd = [sys.executable, '-B', '-m', 'vlib.main', pid, '--worker', str(shard), str(nshards),
               outfile, '--tier', tier, '--seed', str(seed)]
        procs.append((shard, hs, outfile, subprocess.Popen(cmd, env=envv, cwd=VERIF_DIR,
                                                           stdout=subprocess.PIPE,
                                                           stderr=subprocess.STDOUT, text=True)))
    agg: dict[str, dict] = {}
    for shard, hs, outfile, p in procs:
        out, _ = p.communicate()
        if p.returncode != 0 or not os.path.exists(outfile):
            errors.append(f'worker {shard} exited {p.returncode}:\n{(out or "")[-3000:]}')
            continue
        with open(outfile) as f:
            data = json.load(f)
        for name, rec in (data.get('sharded') or {}).items():
            if rec['violation']:
                v = dict(rec['violation'])
                v['hashseed'] = hs
                violations.append(v)
            if rec['error']:
                errors.append(f'worker {shard} finite part {name}:\n{rec["error"]}')
            r = rec['result'] or {}
            e = extra.setdefault(name, {'evaluations': 0, 'distinct_nontrivial': 0, 'samples': [],
                                        'count_in_totals': True, 'wall_s': 0.0, 'counters': {}})
            e['evaluations'] += int(r.get('evaluations', 0))
            e['distinct_nontrivial'] += int(r.get('distinct_nontrivial', 0))
            e['wall_s'] = round(max(e['wall_s'], rec['wall_s']), 2)
            for k, v in (r.get('counters') or {}).items():
                e['counters'][k] = e['counters'].get(k, 0) + v
            if len(e['samples']) < 3:
                e['samples'].extend((r.get('samples') or [])[:1])
            if 'exhaustive' in r:
                e['exhaustive'] = bool(r['exhaustive']) and e.get('exhaustive', True)
        for sname, r in data['subs'].items():
            a = agg.setdefault(sname, {'evaluations': 0, 'nontrivial': set(), 'classes': {},
                                       'samples': [], 'known_hits': {}, 'wall_s': 0.0,
                                       'counters': {}})
            a['evaluations'] += r['evaluations']
            a['nontrivial'].update(r['nontrivial'])
            for k, v in r['classes'].items():
                a['classes'][k] = a['classes'].get(k, 0) + v
            for k, v in r['counters'].items():
                a['counters'][k] = a['counters'].get(k, 0) + v
            for k, v in r['known_hits'].items():
                a['known_hits'][k] = a['known_hits'].get(k, 0) + v
            if len(a['samples']) < 2:
                a['samples'].extend(r['samples'][: 2 - len(a['samples'])])
            a['wall_s'] = max(a['wall_s'], r['wall_s'])
            if r['violation']:
                v = dict(r['violation'])
                v['hashseed'] = hs
                violations.append(v)
            if r['error']:
                errors.append(f'worker {shard} sub {sname}:\n{r["error"]}')

    # 3. verdict
    known_hits_total: dict[str, int] = {}
    for a in agg.values():
        for k, v in a['known_hits'].items():
            known_hits_total[k] = known_hits_total.get(k, 0) + v
    for e in kf_entries:
        if e.get('status') == 'known':
            hits = known_hits_total.get(e['id'], 0)
            still = e['id'] in known_still_failing
            lines.append(f'KNOWN-FINDING: property={pid} {e["what"]} '
                         f'[{e["id"]}; regress input {"still fails" if still else "not failing"}; '
                         f'{hits} generated hits this run]')

    seen_buckets: set[str] = set()
    replay_paths = []
    for v in violations:
        key = (v['sub'], v['bucket'])
        if key in seen_buckets:
            continue
        seen_buckets.add(key)
        if v.get('replay_path'):
            path = v['replay_path']
        else:
            safe = ''.join(ch if ch.isalnum() else '_' for ch in f'{v["sub"]}-{v["bucket"]}')[:80]
            path = os.path.join(VERIF_DIR, 'replays', f'{pid}-{safe}-{seed}.json')
            rec = {'property': pid, 'sub': v['sub'], 'bucket': v['bucket'],
                   'message': v['message'], 'case': v['case'],
                   'hashseed': v.get('hashseed', 0), 'seed': seed, 'tier': tier}
            note = settle_replay(pid, path, rec, v.get('history'))
            if note:
                v['message'] = v['message'] + ' ' + note
        replay_paths.append(path)
        lines.append(f'VIOLATION property={pid} replay={path}')
        lines.append(f'  sub-check {v["sub"]} bucket {v["bucket"]}: {str(v["message"])[:600]}')

    evaluations = sum(a['evaluations'] for a in agg.values())
    for name, r in extra.items():
        if isinstance(r, dict) and r.get('count_in_totals'):
            evaluations += int(r.get('evaluations', 0))
    nt_total = sum(len(a['nontrivial']) for a in agg.values())
    for name, r in extra.items():
        if isinstance(r, dict) and r.get('count_in_totals'):
            nt_total += int(r.get('distinct_nontrivial', 0))
    samples = []
    for a in agg.values():
        samples.extend(a['samples'])
    for name, r in extra.items():
        if isinstance(r, dict) and r.get('samples'):
            samples.extend({'sub': name, 'case': s} for s in r['samples'][:2])

    # class starvation (harness insufficiency, never a violation)
    starved = []
    for sname, req in (spec.get('required_classes') or {}).items():
        got = agg.get(sname, {}).get('classes', {})
        for c in req:
            if got.get(c, 0) == 0:
                starved.append(f'{sname}:{c}')
    if starved and not violations:
        errors.append('class starvation (generator insufficient): ' + ', '.join(starved))

    wall = time.time() - t0
    evidence = {
        'property_id': pid,
        'tier': tier,
        'seed': seed,
        'level': 'exploration',
        'coverage': {
            'evaluations': evaluations,
            'distinct_nontrivial': nt_total,
            'rule': spec['rule'],
            'samples': samples[:8] or [{'note': 'no sample collected'}],
            'exhaustive': False,
            'sub_checks': {
                k: {'evaluations': a['evaluations'], 'distinct_nontrivial': len(a['nontrivial']),
                    'classes': dict(sorted(a['classes'].items())),
                    'counters': dict(sorted(a['counters'].items())),
                    'known_finding_hits': a['known_hits'], 'wall_s': round(a['wall_s'], 2)}
                for k, a in sorted(agg.items())
            },
            'finite_parts': extra,
            'regress_inputs_replayed': regress_total,
            'shards': nshards,
            'tree': env.REPO,
        },
        'assumptions': spec.get('assumptions', []),
        'wall_s': round(wall, 2),
        'violations': len(seen_buckets),
    }
    # evidence under /verif/evidence describes runs against /repo itself; sensitivity runs against another tree
    # (VERIF_REPO=<scratch copy>) leave it alone
    if env.REPO == '/repo':
        ev_path = os.path.join(VERIF_DIR, 'evidence', f'{pid}.json')
    else:
        ev_path = os.path.join(VERIF_DIR, '.scratch', f'evidence-{pid}-other-tree.json')
    with open(ev_path, 'w') as f:
        json.dump(evidence, f, indent=1, default=str)

    for ln in lines:
        print(ln)
    print(f'{pid} {tier} seed={seed}: {evaluations} cases, {nt_total} distinct non-trivial, '
          f'{len(seen_buckets)} violation bucket(s), {len(errors)} harness error(s), {wall:.1f}s')
    for sname, a in sorted(agg.items()):
        print(f'  {sname}: {a["evaluations"]} cases, {len(a["nontrivial"])} non-trivial; classes '
              + ', '.join(f'{k}={v}' for k, v in sorted(a['classes'].items())))
    try:
        import shutil

        shutil.rmtree(scratch, ignore_errors=True)
    except Exception:  # noqa
        pass
    if seen_buckets:
        return 1
    if errors:
        print('HARNESS-ERROR (exit 2; not a violation):')
        shown = set()
        for e in errors:
            key = e.strip().splitlines()[-1] if e.strip() else ''
            if key in shown:
                continue
            shown.add(key)
            print(e[-3000:])
            if len(shown) >= 4:
                break
        return 2
    return 0


def main(argv=None) -> int:
    ap = argparse.ArgumentParser()
    ap.add_argument('pid')
    ap.add_argument('--tier', default=os.environ.get('VERIF_TIER') or 'quick',
                    choices=['quick', 'thorough'])
    ap.add_argument('--replay')
    ap.add_argument('--worker', nargs=3)
    ap.add_argument('--seed', type=int)
    a = ap.parse_args(argv)
    pid = a.pid.upper()
    if a.replay:
        return replay_main(pid, a.replay)
    if a.worker:
        shard, nshards, outfile = int(a.worker[0]), int(a.worker[1]), a.worker[2]
        return worker_main(pid, a.tier, a.seed or 1, shard, nshards, outfile)
    return parent_main(pid, a.tier)


if __name__ == '__main__':
    try:
        rc = main()
    except SystemExit:
        raise
    except BaseException:  # noqa
        traceback.print_exc()
        rc = 2
    sys.exit(rc)
