"""Entry point (kept separate so that vlib.runner is imported under its real name)."""
import sys
import traceback

from vlib import runner

if __name__ == '__main__':
    try:
        rc = runner.main()
    except SystemExit:
        raise
    except BaseException:  # noqa
        traceback.print_exc()
        rc = 2
    sys.exit(rc)
