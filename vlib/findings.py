"""Known-findings matching (DESIGN.md 3.7).  The file is read, never written, at run time."""

from __future__ import annotations

import importlib
import json
import os

from vlib import env

_cache = None


def _load():
    global _cache
    if _cache is None:
        path = os.path.join(env.VERIF_DIR, 'known_findings.json')
        if os.path.exists(path):
            with open(path) as f:
                _cache = json.load(f).get('findings', [])
        else:
            _cache = []
    return _cache


def entries(pid: str):
    return [e for e in _load() if e.get('property') == pid]


def match(pid: str, sub: str, violation, case, check_fn):
    """Return the id of the listed *known* finding this failure belongs to, else None.

    A failure is attributed to a listed finding only if (i) sub-check and bucket agree,
    (ii) the case satisfies the entry's trigger predicate (evaluated on the input) and
    (iii) if the property module supplies a neutralising rewrite for the trigger, the check
    passes on the rewritten case.
    """
    for e in entries(pid):
        if e.get('status') != 'known':
            continue
        if e.get('sub') not in (None, sub):
            continue
        if not any(violation.bucket == b or (b.endswith('*') and violation.bucket.startswith(b[:-1]))
                   for b in e.get('buckets', [])):
            continue
        mod = importlib.import_module(f'props.{pid.lower()}')
        trig = getattr(mod, 'TRIGGERS', {}).get(e.get('trigger'))
        if trig is None:
            continue
        pred, neutralise = trig
        try:
            if not pred(case):
                continue
        except Exception:  # noqa
            continue
        if neutralise is not None:
            try:
                check_fn(neutralise(case))
            except Exception:  # noqa
                continue
        return e['id']
    return None
