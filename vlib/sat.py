"""Small complete DPLL with unit propagation (DESIGN.md 3.4).  Independent of z3 and cirbo."""

from __future__ import annotations


def solve(clauses, assumptions=()):
    """Returns a dict var -> bool (a model over all variables that occur) or None."""
    cls = [list(dict.fromkeys(c)) for c in clauses]
    # tautologies are always satisfied
    cls = [c for c in cls if not any(-l in c for l in c)]
    assign: dict[int, bool] = {}
    for a in assumptions:
        v, b = abs(a), a > 0
        if assign.get(v, b) != b:
            return None
        assign[v] = b
    variables = sorted({abs(l) for c in cls for l in c})

    def propagate(assign):
        changed = True
        while changed:
            changed = False
            for c in cls:
                sat = False
                unassigned = None
                n_un = 0
                for l in c:
                    v = assign.get(abs(l))
                    if v is None:
                        n_un += 1
                        unassigned = l
                    elif v == (l > 0):
                        sat = True
                        break
                if sat:
                    continue
                if n_un == 0:
                    return False
                if n_un == 1:
                    assign[abs(unassigned)] = unassigned > 0
                    changed = True
        return True

    def rec(assign):
        if not propagate(assign):
            return None
        for v in variables:
            if v not in assign:
                for b in (True, False):
                    a2 = dict(assign)
                    a2[v] = b
                    r = rec(a2)
                    if r is not None:
                        return r
                return None
        return assign

    return rec(assign)


def satisfies(clauses, model: dict[int, bool]) -> bool:
    return all(any(model.get(abs(l), False) == (l > 0) for l in c) for c in clauses)


def solve_fast(clauses, assumptions=()):
    """Same contract as solve(), decided by z3 (for formulas too long for the plain DPLL above; independent of cirbo)."""
    import z3
    variables = sorted({abs(l) for c in clauses for l in c} | {abs(a) for a in assumptions})
    bv = {v: z3.Bool(f'v{v}') for v in variables}
    s = z3.Solver()
    for c in clauses:
        s.add(z3.Or([bv[abs(l)] if l > 0 else z3.Not(bv[abs(l)]) for l in c]) if c else z3.BoolVal(False))
    for a in assumptions:
        s.add(bv[abs(a)] if a > 0 else z3.Not(bv[abs(a)]))
    if s.check() != z3.sat:
        return None
    m = s.model()
    return {v: bool(z3.is_true(m.eval(bv[v], model_completion=True))) for v in variables}
