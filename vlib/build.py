"""netlist -> cirbo.Circuit by several public construction routes (DESIGN.md 3.2)."""

from __future__ import annotations

from vlib.env import cirbo_core


def gate_type(name: str):
    return getattr(cirbo_core().gate, name)


def bench_text(nl: dict, keys=None) -> str:
    """Bench text of a netlist; `keys` (one small int per gate) permutes gate lines."""
    lines = []
    for lab in nl['inputs']:
        lines.append(f'INPUT({lab})')
    glines = []
    for idx, (lab, typ, ops) in enumerate(nl['gates']):
        if typ == 'INPUT':
            continue
        name = 'BUFF' if typ == 'IFF' else typ
        glines.append((keys[idx % len(keys)] if keys else 0, idx, f'{lab} = {name}({", ".join(ops)})'))
    glines.sort()
    lines.extend(x[2] for x in glines)
    for lab in nl['outputs']:
        lines.append(f'OUTPUT({lab})')
    return '\n'.join(lines) + '\n'


LAST = [None]  # the circuit most recently handed out (a check may want to see what was added to it afterwards)


def build(nl: dict, route: dict | None = None):
    """Build a Circuit for the netlist by the given route (default: emplace in order)."""
    c = _build(nl, route)
    LAST[0] = c
    return c


def _build(nl: dict, route: dict | None = None):
    core = cirbo_core()
    Circuit, Gate = core.Circuit, core.Gate
    route = route or {'kind': 'emplace'}
    kind = route['kind']
    if kind == 'bench' and any(g[0] == '' for g in nl['gates']):
        kind = 'emplace'  # the empty label cannot be written in bench text
    if kind == 'bench':
        c = Circuit.from_bench_string(bench_text(nl, route.get('keys')))
        return _finish(c, nl, route)
    c = Circuit()
    watch = {int(x) % (len(nl['gates']) + 1) for x in route.get('observe') or []}
    for pos, (lab, typ, ops) in enumerate(nl['gates']):
        if pos in watch:
            observe(c)
        if kind == 'add_gate':
            c.add_gate(Gate(lab, gate_type(typ), tuple(ops)))
        else:
            c.emplace_gate(lab, gate_type(typ), tuple(ops))
    if watch:
        observe(c)
    if list(c.inputs) != list(nl['inputs']):
        c.set_inputs(list(nl['inputs']))
    if route.get('observe') and nl['outputs']:
        # the outputs arrive in two steps with a look at the circuit in between
        c.set_outputs(list(nl['outputs'][:1]))
        observe(c)
    c.set_outputs(list(nl['outputs']))
    if kind == 'rename':
        labs = [g[0] for g in nl['gates']]
        for i, m in enumerate(route.get('moves', [])):
            lab = labs[m % len(labs)]
            tmp = f'__tmp_move_{i}__'
            c.rename_gate(lab, tmp)
            c.rename_gate(tmp, lab)
    return _finish(c, nl, route)


def observe(c):
    """Read-only public calls made in the middle of a construction (a circuit is looked at while it is being built):
    whatever they remember must not outlive the next mutation.  Results and refusals are ignored here."""
    import copy

    looks = (lambda: list(c.top_sort()), lambda: list(c.top_sort(inverse=True)), lambda: c.evaluate_full_circuit({}),
             lambda: [c.index_of_input(i) for i in list(c.inputs)], lambda: copy.copy(c),
             lambda: c.get_truth_table() if len(c.inputs) <= 5 else None,
             lambda: c.get_gates_truth_table() if len(c.inputs) <= 5 else None,
             lambda: [list(c.dfs()), list(c.bfs())], lambda: c.format_circuit(),
             lambda: [c.evaluate_circuit({}), c.gates_number(), c.input_size, c.output_size],
             lambda: [c.get_gate_users(l) for l in list(c.gates)])
    for look in looks:
        try:
            look()
        except Exception:  # noqa
            pass


def _finish(c, nl: dict, route: dict):
    """Optional last steps of a construction route. `scratch`: some helper gates (reading an existing gate twice, or
    reading each other) are added and removed again, so the circuit has a past without differing from the netlist.
    `obtain`: the circuit handed to the code under test is a copy.copy / copy.deepcopy / pickle round trip of the one
    built (the library deep-copies circuits itself; workers return pickled ones). If copying itself fails the original
    object is used: supporting copy protocols is not what the properties are about."""
    k = int(route.get('scratch') or 0)
    labs = [g[0] for g in nl['gates']]
    if k and labs:
        seed = int(route.get('scratch_seed') or 0)
        added = []
        for i in range(k):
            a = labs[(seed + 3 * i) % len(labs)]
            b = labs[(seed + 5 * i + 1) % len(labs)]
            lab = f'__scratch_{i}__'
            if i % 3 == 0:
                c.emplace_gate(lab, gate_type('XOR'), (a, a))
            elif i % 3 == 1:
                c.emplace_gate(lab, gate_type('AND'), (a, b, a))
            else:
                c.emplace_gate(lab, gate_type('OR'), (added[-1], a, added[-1]))
            added.append(lab)
        for lab in reversed(added):
            c.remove_gate(lab)
    how = route.get('obtain')
    if how:
        import copy
        import pickle

        try:
            if how == 'copy':
                c = copy.copy(c)
            elif how == 'deepcopy':
                c = copy.deepcopy(c)
            elif how == 'pickle':
                c = pickle.loads(pickle.dumps(c))
            elif how in ('composed', 'composed_named'):
                # the circuit as a composition result: attached to an empty circuit (side by side, labels kept)
                core = cirbo_core()
                made = core.Circuit().add_circuit(c, **({'name': '', } if how == 'composed' else {'name': 'whole', 'add_prefix': False}))
                a, b = refsem_of(made), refsem_of(c)
                if a == b:
                    c = made
        except Exception:  # noqa
            pass
    return c


def refsem_of(c):
    from vlib import refsem

    r = refsem.from_circuit(c)
    return r['inputs'], sorted((g[0], g[1], tuple(g[2])) for g in r['gates']), r['outputs']
