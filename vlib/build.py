"""netlist -> cirbo.Circuit by several public construction routes (DESIGN.md 3.2)."""

from __future__ import annotations

from vlib.env import cirbo_core


def gate_type(name: str):
    return getattr(cirbo_core().gate, name)


def bench_text(nl: dict, keys=None) -> str:
    """Bench text of a netlist; `keys` (one small int per gate) permutes gate lines."""
    lines = []
    for lab in nl['inputs']:
        lines.append(f'INPUT({lab})')
    glines = []
    for idx, (lab, typ, ops) in enumerate(nl['gates']):
        if typ == 'INPUT':
            continue
        name = 'BUFF' if typ == 'IFF' else typ
        glines.append((keys[idx % len(keys)] if keys else 0, idx, f'{lab} = {name}({", ".join(ops)})'))
    glines.sort()
    lines.extend(x[2] for x in glines)
    for lab in nl['outputs']:
        lines.append(f'OUTPUT({lab})')
    return '\n'.join(lines) + '\n'


def build(nl: dict, route: dict | None = None):
    """Build a Circuit for the netlist by the given route (default: emplace in order)."""
    core = cirbo_core()
    Circuit, Gate = core.Circuit, core.Gate
    route = route or {'kind': 'emplace'}
    kind = route['kind']
    if kind == 'bench':
        c = Circuit.from_bench_string(bench_text(nl, route.get('keys')))
        return _finish(c, nl, route)
    c = Circuit()
    for lab, typ, ops in nl['gates']:
        if kind == 'add_gate':
            c.add_gate(Gate(lab, gate_type(typ), tuple(ops)))
        else:
            c.emplace_gate(lab, gate_type(typ), tuple(ops))
    if list(c.inputs) != list(nl['inputs']):
        c.set_inputs(list(nl['inputs']))
    c.set_outputs(list(nl['outputs']))
    if kind == 'rename':
        labs = [g[0] for g in nl['gates']]
        for i, m in enumerate(route.get('moves', [])):
            lab = labs[m % len(labs)]
            tmp = f'__tmp_move_{i}__'
            c.rename_gate(lab, tmp)
            c.rename_gate(tmp, lab)
    return _finish(c, nl, route)


def _finish(c, nl: dict, route: dict):
    """Optional last steps of a construction route. `scratch`: some helper gates (reading an existing gate twice, or
    reading each other) are added and removed again, so the circuit has a past without differing from the netlist.
    `obtain`: the circuit handed to the code under test is a copy.copy / copy.deepcopy / pickle round trip of the one
    built (the library deep-copies circuits itself; workers return pickled ones). If copying itself fails the original
    object is used: supporting copy protocols is not what the properties are about."""
    k = int(route.get('scratch') or 0)
    labs = [g[0] for g in nl['gates']]
    if k and labs:
        seed = int(route.get('scratch_seed') or 0)
        added = []
        for i in range(k):
            a = labs[(seed + 3 * i) % len(labs)]
            b = labs[(seed + 5 * i + 1) % len(labs)]
            lab = f'__scratch_{i}__'
            if i % 3 == 0:
                c.emplace_gate(lab, gate_type('XOR'), (a, a))
            elif i % 3 == 1:
                c.emplace_gate(lab, gate_type('AND'), (a, b, a))
            else:
                c.emplace_gate(lab, gate_type('OR'), (added[-1], a, added[-1]))
            added.append(lab)
        for lab in reversed(added):
            c.remove_gate(lab)
    how = route.get('obtain')
    if how:
        import copy
        import pickle

        try:
            if how == 'copy':
                c = copy.copy(c)
            elif how == 'deepcopy':
                c = copy.deepcopy(c)
            elif how == 'pickle':
                c = pickle.loads(pickle.dumps(c))
            elif how in ('composed', 'composed_named'):
                # the circuit as a composition result: attached to an empty circuit (side by side, labels kept)
                core = cirbo_core()
                made = core.Circuit().add_circuit(c, **({'name': '', } if how == 'composed' else {'name': 'whole', 'add_prefix': False}))
                a, b = refsem_of(made), refsem_of(c)
                if a == b:
                    c = made
        except Exception:  # noqa
            pass
    return c


def refsem_of(c):
    from vlib import refsem

    r = refsem.from_circuit(c)
    return r['inputs'], sorted((g[0], g[1], tuple(g[2])) for g in r['gates']), r['outputs']
