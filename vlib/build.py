"""netlist -> cirbo.Circuit by several public construction routes (DESIGN.md 3.2)."""

from __future__ import annotations

from vlib.env import cirbo_core


def gate_type(name: str):
    return getattr(cirbo_core().gate, name)


def bench_text(nl: dict, keys=None) -> str:
    """Bench text of a netlist; `keys` (one small int per gate) permutes gate lines."""
    lines = []
    for lab in nl['inputs']:
        lines.append(f'INPUT({lab})')
    glines = []
    for idx, (lab, typ, ops) in enumerate(nl['gates']):
        if typ == 'INPUT':
            continue
        name = 'BUFF' if typ == 'IFF' else typ
        glines.append((keys[idx] if keys else 0, idx, f'{lab} = {name}({", ".join(ops)})'))
    glines.sort()
    lines.extend(x[2] for x in glines)
    for lab in nl['outputs']:
        lines.append(f'OUTPUT({lab})')
    return '\n'.join(lines) + '\n'


def build(nl: dict, route: dict | None = None):
    """Build a Circuit for the netlist by the given route (default: emplace in order)."""
    core = cirbo_core()
    Circuit, Gate = core.Circuit, core.Gate
    route = route or {'kind': 'emplace'}
    kind = route['kind']
    if kind == 'bench':
        c = Circuit.from_bench_string(bench_text(nl, route.get('keys')))
        return c
    c = Circuit()
    for lab, typ, ops in nl['gates']:
        if kind == 'add_gate':
            c.add_gate(Gate(lab, gate_type(typ), tuple(ops)))
        else:
            c.emplace_gate(lab, gate_type(typ), tuple(ops))
    if list(c.inputs) != list(nl['inputs']):
        c.set_inputs(list(nl['inputs']))
    c.set_outputs(list(nl['outputs']))
    if kind == 'rename':
        labs = [g[0] for g in nl['gates']]
        for i, m in enumerate(route.get('moves', [])):
            lab = labs[m]
            tmp = f'__tmp_move_{i}__'
            c.rename_gate(lab, tmp)
            c.rename_gate(tmp, lab)
    return c
