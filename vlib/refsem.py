"""Independent reference semantics for gate netlists (DESIGN.md 3.1).

Written from the property text and the gate *names* only; it never imports
cirbo.  A netlist is plain data:

    {"inputs": [label, ...],                      # input order
     "gates":  [[label, TYPE, [operand, ...]], ...]   # storage order, INPUT gates included
     "outputs": [label, ...]}

A gate's value on W test rows is one Python int (bit j = value on row j).
"""

from __future__ import annotations

# 4-character tables: index = 2*a + b  (a = first operand, b = second operand)
BIN_TT = {
    'AND': '0001', 'OR': '0111', 'XOR': '0110', 'NAND': '1110', 'NOR': '1000',
    'NXOR': '1001', 'GT': '0010', 'LT': '0100', 'GEQ': '1011', 'LEQ': '1101',
    'LIFF': '0011', 'RIFF': '0101', 'LNOT': '1100', 'RNOT': '1010',
}
NARY = ('AND', 'OR', 'XOR', 'NAND', 'NOR', 'NXOR')
FIXED_BINARY = ('GT', 'LT', 'GEQ', 'LEQ', 'LIFF', 'RIFF', 'LNOT', 'RNOT')
UNARY = ('NOT', 'IFF')
CONST = ('ALWAYS_TRUE', 'ALWAYS_FALSE')
ALL_TYPES = NARY + FIXED_BINARY + UNARY + CONST
SYMMETRIC = NARY + UNARY + CONST


def full_patterns(n: int) -> tuple[list[int], int]:
    """Canonical full truth-table patterns: row j <-> inputs = big-endian bits of j."""
    W = 1 << n
    mask = (1 << W) - 1
    pats = []
    for i in range(n):
        half = 1 << (n - 1 - i)
        block = ((1 << half) - 1) << half
        rep = mask // ((1 << (2 * half)) - 1)
        pats.append(block * rep)
    return pats, mask


def _bin(tt: str, a: int, b: int, mask: int) -> int:
    na, nb = a ^ mask, b ^ mask
    r = 0
    if tt[0] == '1':
        r |= na & nb
    if tt[1] == '1':
        r |= na & b
    if tt[2] == '1':
        r |= a & nb
    if tt[3] == '1':
        r |= a & b
    return r


class ArityError(ValueError):
    """A gate has a number of operands its type does not admit (ill-formed netlist)."""


def _arity(cond: bool, typ: str, k: int):
    if not cond:
        raise ArityError(f'gate type {typ} with {k} operand(s)')


def apply_gate(typ: str, ops: list[int], mask: int) -> int:
    if typ == 'ALWAYS_TRUE':
        return mask
    if typ == 'ALWAYS_FALSE':
        return 0
    if typ == 'NOT':
        _arity(len(ops) == 1, typ, len(ops))
        return ops[0] ^ mask
    if typ == 'IFF':
        _arity(len(ops) == 1, typ, len(ops))
        return ops[0]
    if typ in FIXED_BINARY:
        _arity(len(ops) == 2, typ, len(ops))
        return _bin(BIN_TT[typ], ops[0], ops[1], mask)
    if typ in ('AND', 'NAND'):
        _arity(len(ops) >= 2, typ, len(ops))
        r = mask
        for o in ops:
            r &= o
        return r ^ mask if typ == 'NAND' else r
    if typ in ('OR', 'NOR'):
        _arity(len(ops) >= 2, typ, len(ops))
        r = 0
        for o in ops:
            r |= o
        return r ^ mask if typ == 'NOR' else r
    if typ in ('XOR', 'NXOR'):
        _arity(len(ops) >= 2, typ, len(ops))
        r = 0
        for o in ops:
            r ^= o
        return r ^ mask if typ == 'NXOR' else r
    raise ValueError(f'unknown gate type {typ}')


def own_toposort(nl: dict) -> list[str]:
    """Own iterative DFS order over the whole netlist (operands first). Raises on cycle."""
    g = {lab: (typ, ops) for lab, typ, ops in nl['gates']}
    state: dict[str, int] = {}
    order: list[str] = []
    for root in g:
        if root in state:
            continue
        stack = [(root, 0)]
        state[root] = 1
        while stack:
            lab, i = stack[-1]
            ops = g[lab][1]
            if i < len(ops):
                stack[-1] = (lab, i + 1)
                c = ops[i]
                s = state.get(c)
                if s is None:
                    state[c] = 1
                    stack.append((c, 0))
                elif s == 1:
                    raise ValueError('cycle')
            else:
                state[lab] = 2
                order.append(lab)
                stack.pop()
    return order


def tables(nl: dict, pats: list[int] | None = None, mask: int | None = None) -> dict[str, int]:
    """Value vector of every gate.  Default: full truth table over nl['inputs']."""
    if pats is None:
        pats, mask = full_patterns(len(nl['inputs']))
    g = {lab: (typ, ops) for lab, typ, ops in nl['gates']}
    val: dict[str, int] = {}
    for i, lab in enumerate(nl['inputs']):
        val[lab] = pats[i]
    for lab in own_toposort(nl):
        typ, ops = g[lab]
        if typ == 'INPUT':
            assert lab in val, f'INPUT gate {lab} not in inputs list'
            continue
        val[lab] = apply_gate(typ, [val[o] for o in ops], mask)
    return val


def out_tables(nl: dict) -> list[int]:
    t = tables(nl)
    return [t[o] for o in nl['outputs']]


def tt_rows(nl: dict) -> list[list[bool]]:
    """Truth table as cirbo documents it: one row per output, column j = input index j."""
    n = len(nl['inputs'])
    t = tables(nl)
    return [[bool((t[o] >> j) & 1) for j in range(1 << n)] for o in nl['outputs']]


def int_to_col(v: int, n: int) -> list[bool]:
    return [bool((v >> j) & 1) for j in range(1 << n)]


def col_to_int(col) -> int:
    r = 0
    for j, b in enumerate(col):
        if b:
            r |= 1 << j
    return r


def reachable(nl: dict, starts=None) -> set[str]:
    g = {lab: ops for lab, _, ops in nl['gates']}
    seen: set[str] = set()
    stack = list(nl['outputs'] if starts is None else starts)
    while stack:
        x = stack.pop()
        if x in seen:
            continue
        seen.add(x)
        stack.extend(g[x])
    return seen


# ---------------------------------------------------------------------------
# third, deliberately naive evaluator used only to validate `tables`


def naive_eval(nl: dict, row: list[bool]) -> dict[str, bool]:
    g = {lab: (typ, ops) for lab, typ, ops in nl['gates']}
    env = dict(zip(nl['inputs'], row))

    def ev(lab: str) -> bool:
        if lab in env:
            return env[lab]
        typ, ops = g[lab]
        v = [ev(o) for o in ops]
        if typ == 'ALWAYS_TRUE':
            r = True
        elif typ == 'ALWAYS_FALSE':
            r = False
        elif typ == 'NOT':
            r = not v[0]
        elif typ == 'IFF':
            r = v[0]
        elif typ == 'AND':
            r = all(v)
        elif typ == 'NAND':
            r = not all(v)
        elif typ == 'OR':
            r = any(v)
        elif typ == 'NOR':
            r = not any(v)
        elif typ == 'XOR':
            r = sum(v) % 2 == 1
        elif typ == 'NXOR':
            r = sum(v) % 2 == 0
        elif typ == 'GT':
            r = v[0] and not v[1]
        elif typ == 'LT':
            r = (not v[0]) and v[1]
        elif typ == 'GEQ':
            r = v[0] or not v[1]
        elif typ == 'LEQ':
            r = (not v[0]) or v[1]
        elif typ == 'LIFF':
            r = v[0]
        elif typ == 'RIFF':
            r = v[1]
        elif typ == 'LNOT':
            r = not v[0]
        elif typ == 'RNOT':
            r = not v[1]
        else:
            raise ValueError(typ)
        env[lab] = r
        return r

    for lab in g:
        ev(lab)
    return env


def self_check(samples: list[dict]) -> int:
    """Validate `tables` against `naive_eval` on the given netlists; returns rows compared."""
    rows = 0
    for nl in samples:
        n = len(nl['inputs'])
        t = tables(nl)
        for j in range(1 << n):
            row = [bool((j >> (n - 1 - i)) & 1) for i in range(n)]
            env = naive_eval(nl, row)
            for lab, v in env.items():
                if bool((t[lab] >> j) & 1) != v:
                    raise AssertionError(f'refsem self-check failed at gate {lab} row {j}: {nl}')
            rows += 1
    return rows


def from_circuit(c) -> dict:
    """Netlist of a cirbo Circuit, through public accessors only."""
    return {
        'inputs': list(c.inputs),
        'gates': [[g.label, g.gate_type.name, list(g.operands)] for g in c.gates.values()],
        'outputs': list(c.outputs),
    }


def struct_hash(obj) -> str:
    import hashlib, json
    return hashlib.sha1(json.dumps(obj, sort_keys=True, default=str).encode()).hexdigest()[:14]
