"""Import environment: cirbo from $VERIF_REPO (default /repo), shims, deterministic uuid."""

from __future__ import annotations

import os
import sys
import types

VERIF_DIR = os.path.dirname(os.path.dirname(os.path.abspath(__file__)))
REPO = os.path.abspath(os.environ.get('VERIF_REPO', '/repo'))

_core = None


def setup_paths() -> None:
    deps = os.path.join(VERIF_DIR, '.deps')
    shims = os.path.join(VERIF_DIR, 'shims')
    for p in (deps, shims, REPO):
        if p in sys.path:
            sys.path.remove(p)
    # cirbo from the working tree first, then shims for the missing third-party
    # packages (pysat, mockturtle_wrapper), then our offline deps.
    sys.path.insert(0, deps)
    sys.path.insert(0, shims)
    sys.path.insert(0, REPO)
    sys.dont_write_bytecode = True


def cirbo_core():
    """Namespace with Circuit, Gate, gate module, exceptions ... from the tree under test."""
    global _core
    if _core is not None:
        return _core
    setup_paths()
    import cirbo  # noqa
    here = os.path.abspath(cirbo.__file__)
    if not here.startswith(REPO + os.sep):
        raise RuntimeError(f'cirbo imported from {here}, expected under {REPO}')
    from cirbo.core.circuit import circuit as circuit_mod
    from cirbo.core.circuit import gate as gate_mod
    from cirbo.core.circuit import exceptions as cexc
    from cirbo.core.circuit import operators
    import cirbo.exceptions as cirbo_exc

    ns = types.SimpleNamespace()
    ns.cirbo = cirbo
    ns.Circuit = circuit_mod.Circuit
    ns.Block = circuit_mod.Block
    ns.circuit_mod = circuit_mod
    ns.Gate = gate_mod.Gate
    ns.gate = gate_mod
    ns.cexc = cexc
    ns.CirboError = cirbo_exc.CirboError
    ns.operators = operators
    ns.Undefined = operators.Undefined
    _core = ns
    return ns


# ---------------------------------------------------------------------------
# deterministic uuid stream (cirbo draws labels from uuid.uuid4())

import uuid as _uuid_mod

_real_uuid4 = _uuid_mod.uuid4


class UuidStream:
    """Replaces uuid.uuid4 by a seeded stream for the duration of a `with` block."""

    def __init__(self, seed: int):
        import random

        self._rng = random.Random(seed)

    def _next(self):
        return _uuid_mod.UUID(int=self._rng.getrandbits(128), version=4)

    def __enter__(self):
        _uuid_mod.uuid4 = self._next
        return self

    def __exit__(self, *exc):
        _uuid_mod.uuid4 = _real_uuid4
        return False
