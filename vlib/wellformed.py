"""Structural invariant of a Circuit (DESIGN.md 3.3) as an executable predicate.

`problems(circuit)` returns a list of human-readable violations (empty = well formed).
Only public accessors are used: gates, inputs, outputs, blocks, get_gate_users, top_sort,
copy.copy.
"""

from __future__ import annotations

import collections
import copy

from vlib import refsem


def snapshot(c) -> dict:
    """Deep, comparable snapshot of everything observable about a circuit."""
    return {
        'inputs': list(c.inputs),
        'outputs': list(c.outputs),
        'gates': [(g.label, g.gate_type.name, tuple(g.operands)) for g in c.gates.values()],
        'users': {lab: sorted(c.get_gate_users(lab)) for lab in c.gates},
        'blocks': {
            name: (list(b.inputs), list(b.gates), list(b.outputs)) for name, b in c.blocks.items()
        },
    }


def basic_problems(c) -> list[str]:
    """Clauses (1)-(6) of the invariant (no copy checks)."""
    out: list[str] = []
    gates = c.gates
    labels = set(gates)
    for lab, g in gates.items():
        if g.label != lab:
            out.append(f'gate stored under {lab!r} carries label {g.label!r}')
        for o in g.operands:
            if o not in labels:
                out.append(f'operand {o!r} of {lab!r} is not a gate')
    for o in c.outputs:
        if o not in labels:
            out.append(f'output {o!r} is not a gate')
    if out:
        return out
    # (2) users multiset
    expect: dict[str, collections.Counter] = {lab: collections.Counter() for lab in labels}
    for lab, g in gates.items():
        for o in g.operands:
            expect[o][lab] += 1
    for lab in labels:
        got = collections.Counter(c.get_gate_users(lab))
        if got != expect[lab]:
            out.append(f'users of {lab!r}: reported {dict(got)} expected {dict(expect[lab])}')
    # (3) inputs
    ins = list(c.inputs)
    if len(set(ins)) != len(ins):
        out.append(f'inputs list has repeats: {ins}')
    input_typed = {lab for lab, g in gates.items() if g.gate_type.name == 'INPUT'}
    if set(ins) != input_typed:
        out.append(f'inputs list {sorted(ins)} != INPUT gates {sorted(input_typed)}')
    # (4) acyclic by own DFS
    nl = refsem.from_circuit(c)
    try:
        refsem.own_toposort(nl)
    except ValueError:
        out.append('graph has a cycle')
        return out
    # (5) top_sort both directions
    for inverse in (True, False):
        try:
            seq = [g.label for g in c.top_sort(inverse=inverse)]
        except Exception as e:  # noqa
            out.append(f'top_sort(inverse={inverse}) raised {type(e).__name__}: {e}')
            continue
        cnt = collections.Counter(seq)
        if set(cnt) != labels or any(v != 1 for v in cnt.values()):
            missing = sorted(labels - set(cnt))
            dups = sorted(k for k, v in cnt.items() if v > 1)
            out.append(
                f'top_sort(inverse={inverse}) yields {len(seq)} of {len(labels)} gates; '
                f'missing={missing[:5]} repeated={dups[:5]}'
            )
            continue
        pos = {lab: i for i, lab in enumerate(seq)}
        for lab, g in gates.items():
            for o in g.operands:
                if inverse and not pos[o] < pos[lab]:
                    out.append(f'top_sort(inverse=True): {lab!r} before its operand {o!r}')
                if (not inverse) and not pos[o] > pos[lab]:
                    out.append(f'top_sort(inverse=False): {lab!r} after its operand {o!r}')
    # (6) blocks
    for name, b in c.blocks.items():
        for kind, lst in (('gates', b.gates), ('inputs', b.inputs)):
            for lab in lst:
                if lab not in labels:
                    out.append(f'block {name!r} {kind} names absent gate {lab!r}')
    # (6b) the interface lists are separate objects: a change of one must never show up in another
    held = [('inputs', c.inputs), ('outputs', c.outputs)]
    for name, b in c.blocks.items():
        held += [(f'block {name!r} inputs', b.inputs), (f'block {name!r} outputs', b.outputs), (f'block {name!r} gates', b.gates)]
    for i in range(len(held)):
        for j in range(i + 1, len(held)):
            if isinstance(held[i][1], list) and held[i][1] is held[j][1]:
                out.append(f'{held[i][0]} and {held[j][0]} are one and the same list object')
    return out


def copy_problems(c) -> list[str]:
    """Clause (7): copy equals original and shares no mutable state."""
    out: list[str] = []
    before = snapshot(c)
    try:
        cp = copy.copy(c)
    except Exception as e:  # noqa
        return [f'copy.copy raised {type(e).__name__}: {e}']
    if not (cp == c):
        out.append('copy is not equal to its original')
    sc = snapshot(cp)
    if sc['users'] != before['users']:
        out.append('copy reports different users than the original')
    if sc['blocks'] != before['blocks']:
        out.append('copy has different blocks than the original')
    out.extend('copy: ' + p for p in basic_problems(cp))
    if out:
        return out
    # mutate the copy through public calls; the original must not move
    try:
        labs = list(cp.gates)
        fresh = '__wf_fresh__'
        k = 0
        while fresh in cp.gates:
            k += 1
            fresh = f'__wf_fresh_{k}__'
        if labs:
            cp.rename_gate(labs[-1], fresh)
            cp.emplace_gate(fresh + 'n', _not_type(cp), (fresh,))
            cp.mark_as_output(fresh)
        else:
            cp.add_inputs([fresh])
        if len(cp.inputs) > 1:
            cp.set_inputs(list(reversed(cp.inputs)))
        for name in list(cp.blocks):
            blk = cp.get_block(name)
            blk.gates.append(fresh)
            blk.inputs.append(fresh)
            blk.outputs.append(fresh)
        for name in list(cp.blocks):
            cp.delete_block(name)
    except Exception as e:  # noqa
        out.append(f'mutating the copy raised {type(e).__name__}: {e}')
    after = snapshot(c)
    if after != before:
        diff = [k for k in before if before[k] != after[k]]
        out.append(f'mutating a copy changed the original ({diff})')
    return out


def _not_type(c):
    from vlib.env import cirbo_core

    return cirbo_core().gate.NOT


def problems(c, *, with_copy: bool = True) -> list[str]:
    out = basic_problems(c)
    if not out and with_copy:
        out = copy_problems(c)
    return out
