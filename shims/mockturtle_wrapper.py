"""Test double for the `mockturtle_wrapper` C++ extension (not buildable offline here).

`enumerate_cuts(bench_text, cut_size, cut_limit, fanout_size)` returns, like the extension,
a dict  node label -> list of cuts (each a list of leaf labels; trivial cut last).

The enumerator is policy driven: `POLICY` (set by the C04 check from the generated case)
decides the global node order, which cuts survive the `cut_limit` truncation and in which
order a node's cuts are listed.  Default policy = deterministic reference behaviour.
See /verif/DESIGN.md sections 1 and 4 (C04) for what "admissible cut family" means.
"""
from __future__ import annotations

import random

POLICY: dict = {}
STATS = {'calls': 0, 'cuts': 0}


def _parse_bench(text: str):
    inputs, gates, outputs = [], {}, []
    order = []
    for raw in text.splitlines():
        line = raw.strip()
        if not line or line.startswith('#'):
            continue
        up = line.upper()
        if up.startswith('INPUT(') and '=' not in line:
            lab = line[6:].rstrip(') ').strip()
            inputs.append(lab)
            order.append(lab)
            gates[lab] = []
        elif up.startswith('OUTPUT(') and '=' not in line:
            outputs.append(line[7:].rstrip(') ').strip())
        else:
            name, body = line.split('=', 1)
            name = name.strip()
            lb, rb = body.find('('), body.rfind(')')
            args = body[lb + 1:rb].strip() if lb != -1 else ''
            ops = [a.strip() for a in args.split(',')] if args else []
            gates[name] = ops
            order.append(name)
    return inputs, gates, outputs, order


def enumerate_cuts(bench_text: str, cut_size: int, cut_limit: int, fanout_size: int):
    STATS['calls'] += 1
    inputs, gates, outputs, order = _parse_bench(bench_text)
    rng = random.Random(POLICY.get('seed', 0))
    mode = POLICY.get('mode', 'reference')
    # global node order: a topological order of all nodes (inputs first by default)
    indeg = {n: 0 for n in gates}
    users: dict[str, list[str]] = {n: [] for n in gates}
    for n, ops in gates.items():
        for o in set(ops):
            users[o].append(n)
            indeg[n] += 1
    ready = [n for n in order if indeg[n] == 0]
    topo: list[str] = []
    while ready:
        if mode == 'reference':
            n = ready.pop(0)
        else:
            n = ready.pop(rng.randrange(len(ready)))
        topo.append(n)
        for u in users[n]:
            indeg[u] -= 1
            if indeg[u] == 0:
                ready.append(u)
    if len(topo) != len(gates):
        raise ValueError('cyclic bench text')
    index = {n: i for i, n in enumerate(topo)}
    kept: dict[str, list[frozenset]] = {}
    result: dict[str, list[list[str]]] = {}
    for n in topo:
        ops = list(dict.fromkeys(gates[n]))
        trivial = frozenset([n])
        if not ops or len(ops) > fanout_size:
            kept[n] = [trivial]
            result[n] = [[n]]
            continue
        # all unions of one kept cut per fan-in, at most cut_size leaves
        partial = [frozenset()]
        for o in ops:
            nxt = set()
            for p in partial:
                for c in kept[o]:
                    u = p | c
                    if len(u) <= cut_size:
                        nxt.add(u)
            partial = list(nxt)
        cand = sorted(set(partial), key=lambda c: (len(c), sorted(index[x] for x in c)))
        # dominance filter: drop cuts that strictly contain another candidate
        nondom = [c for c in cand if not any(d < c for d in cand)]
        limit = max(cut_limit - 1, 0)
        if mode == 'reference':
            chosen = nondom[:limit]
        else:
            pri = POLICY.get('priority', 'random')
            pool = list(nondom)
            if pri == 'random':
                rng.shuffle(pool)
            elif pri == 'large_first':
                pool.sort(key=lambda c: (-len(c), sorted(index[x] for x in c)))
            elif pri == 'small_first':
                pass
            chosen = pool[:limit]
            if POLICY.get('list_order') == 'shuffled':
                rng.shuffle(chosen)
        kept[n] = chosen + [trivial]
        result[n] = [sorted(c, key=lambda x: index[x]) for c in kept[n]]
        STATS['cuts'] += len(result[n])
    return result
