from __future__ import annotations

import hashlib
import os
import time

KNOWN_NAMES = {
    'cadical103', 'cadical153', 'cadical195', 'crypto', 'gluecard3', 'gluecard4', 'glucose3',
    'glucose4', 'glucose42', 'lingeling', 'maplechrono', 'maplecm', 'maplesat', 'mergesat3',
    'minicard', 'minisat22', 'minisat-gh',
}

# statistics the checks read back (per process)
STATS = {'calls': 0, 'sat': 0, 'unsat': 0, 'injected_timeouts': 0, 'max_vars': 0, 'max_clauses': 0}
# record of (nvars, clauses, answer) for cross-checking small UNSAT answers; bounded
LOG: list = []
LOG_LIMIT = 0


def _cnf_digest(clauses) -> int:
    h = hashlib.sha1()
    for cl in clauses:
        h.update((' '.join(map(str, cl)) + '\n').encode())
    return int(h.hexdigest()[:8], 16)


def _inject_timeout(clauses) -> None:
    """Deterministic time-out injection (DESIGN.md C04): chosen by a hash of the CNF so the
    decision is identical in a parent and in a forked child; sleeps past the caller's limit."""
    spec = os.environ.get('VERIF_SAT_TIMEOUT_INJECT')
    if not spec:
        return
    modulus, residue, sleep_s = spec.split(':')
    if _cnf_digest(clauses) % int(modulus) == int(residue):
        STATS['injected_timeouts'] += 1
        time.sleep(float(sleep_s))


def solve_clauses(clauses, nv: int):
    """Returns a full model [±1..±nv] or None.  z3 as DIMACS SAT solver; model re-checked."""
    import z3

    for cl in clauses:
        if len(cl) == 0:
            return None
    if nv == 0 or not clauses:
        return [-(i + 1) for i in range(nv)]
    lines = [f'p cnf {nv} {len(clauses)}']
    lines.extend(' '.join(map(str, cl)) + ' 0' for cl in clauses)
    s = z3.Solver()
    s.from_string('\n'.join(lines) + '\n')
    r = s.check()
    if r == z3.unsat:
        return None
    if r != z3.sat:
        raise RuntimeError(f'z3 returned {r}')
    m = s.model()
    val = [False] * (nv + 1)
    for d in m.decls():
        name = d.name()
        if name.startswith('k!'):
            idx = int(name[2:])
            if 0 < idx <= nv:
                val[idx] = bool(z3.is_true(m[d]))
    for cl in clauses:
        if not any((val[abs(l)] if l > 0 else not val[abs(l)]) for l in cl):
            raise RuntimeError('pysat shim: z3 model does not satisfy a clause')
    return [(i if val[i] else -i) for i in range(1, nv + 1)]


class Solver:
    def __init__(self, name='cadical195', bootstrap_with=None, **kwargs):
        if hasattr(name, 'value'):
            name = name.value
        if name not in KNOWN_NAMES:
            raise NotImplementedError(f'unknown solver name {name!r}')
        self._clauses: list[list[int]] = []
        self._nv = 0
        self._model = None
        self._status = None
        if bootstrap_with is not None:
            self.append_formula(bootstrap_with)

    def add_clause(self, clause, no_return=True):
        clause = list(clause)
        for lit in clause:
            if abs(lit) > self._nv:
                self._nv = abs(lit)
        self._clauses.append(clause)

    def append_formula(self, formula, no_return=True):
        for cl in formula:
            self.add_clause(cl)

    def solve(self, assumptions=()):
        clauses = self._clauses + [[a] for a in assumptions]
        nv = max([self._nv] + [abs(a) for a in assumptions])
        STATS['calls'] += 1
        STATS['max_vars'] = max(STATS['max_vars'], nv)
        STATS['max_clauses'] = max(STATS['max_clauses'], len(clauses))
        _inject_timeout(clauses)
        self._model = solve_clauses(clauses, nv)
        self._status = self._model is not None
        STATS['sat' if self._status else 'unsat'] += 1
        if LOG_LIMIT and len(LOG) < LOG_LIMIT:
            LOG.append((nv, [list(c) for c in clauses], self._status))
        return self._status

    def get_model(self):
        return list(self._model) if self._status else None

    def nof_vars(self):
        return self._nv

    def nof_clauses(self):
        return len(self._clauses)

    def delete(self):
        self._clauses = []

    def __enter__(self):
        return self

    def __exit__(self, *exc):
        self.delete()
        return False
