"""Test double for the `python-sat` package (not installable offline in this sandbox).

Only the surface cirbo uses is provided.  The decision procedure is z3 used purely as a
CNF SAT solver through its DIMACS reader; every SAT answer is re-checked against the
clauses before it is returned.  See /verif/DESIGN.md section 1.
"""
__version__ = 'verif-shim'
