from __future__ import annotations


class IDPool:
    def __init__(self, start_from: int = 1, occupied=()):
        self.top = start_from - 1
        self.obj2id: dict = {}
        self.id2obj: dict = {}

    def id(self, obj=None) -> int:
        if obj is not None and obj in self.obj2id:
            return self.obj2id[obj]
        self.top += 1
        if obj is not None:
            self.obj2id[obj] = self.top
            self.id2obj[self.top] = obj
        return self.top

    def obj(self, vid: int):
        return self.id2obj.get(vid)


class CNF:
    def __init__(self, from_clauses=None, **kwargs):
        self.clauses: list[list[int]] = []
        self.nv = 0
        if from_clauses is not None:
            for cl in from_clauses:
                self.append(cl)

    def append(self, clause, **kwargs):
        clause = list(clause)
        for lit in clause:
            if abs(lit) > self.nv:
                self.nv = abs(lit)
        self.clauses.append(clause)

    def extend(self, clauses):
        for cl in clauses:
            self.append(cl)

    def __iter__(self):
        return iter(self.clauses)

    def __len__(self):
        return len(self.clauses)
