#!/bin/sh
# Offline, idempotent dependency bootstrap for the checks.
# hypothesis normally lives in /venv already; z3-solver goes to /verif/.deps.
set -e
HERE="$(cd "$(dirname "$0")" && pwd)"
PY=/venv/bin/python
WH=/opt/veriftools/wheels
DEPS="$HERE/.deps"
mkdir -p "$DEPS"
need=""
PYTHONPATH="$DEPS" $PY -c "import hypothesis" 2>/dev/null || need="$need hypothesis"
PYTHONPATH="$DEPS" $PY -c "import z3" 2>/dev/null || need="$need z3-solver"
if [ -n "$need" ]; then
  PIP_NO_INDEX=1 $PY -m pip install --quiet --no-index --find-links "$WH" --target "$DEPS" $need
fi
PYTHONPATH="$DEPS" $PY -c "import hypothesis, z3; print('deps ok: hypothesis', hypothesis.__version__, 'z3', z3.get_version_string())"
